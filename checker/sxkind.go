package main

// The atom algebra: unboxed readings of scalar wrappers presented in the boxed vocabulary.
//
// A scalar wrapper *atK holds its payload in one field and hands it out, boxed, through the value accessor of the field interface. Code
// that asks `x.(*atK)` and reads the payload field directly decides and reads the same things as code that asks `x.getVal().(K)` — provided
// the facts below hold for the package, which are re-proved from the source on every run:
//
//  1. (*atK).getVal has one path, no effects, and returns the payload field of its receiver;
//  2. no two wrappers have the same payload type;
//  3. no other implementer of the field interface (the containers) can return a value of dynamic type K from the accessor: every value it
//     returns has a static non-empty interface type that K does not implement.
//
// Then, for every non-nil field x:   x.(*atK) ok  <=>  x.getVal().(K) ok,   and under either:   x.(*atK).val == x.getVal().(K).
// The paths are rewritten to the right-hand forms, so that every rule phrased on the accessor sees one vocabulary. A nil x satisfies
// neither side's positive form, but `x.getVal()` would panic where `x.(*atK)` merely fails: the negative form is therefore rewritten only
// where x is an element read from a spine (index or range — non-nil by the producer discipline, C12.R4/C09) or a map entry whose presence the
// same path has established; a positive test of a plain map load also states the presence of the key.

import (
	"go/ast"
	"go/token"
	"go/types"
)

type kindFact struct {
	W   *types.Named
	K   types.Type
	Val *types.Var
}

type kindFacts struct {
	acc *types.Func
	byW map[*types.TypeName]*kindFact
	// families: container interfaces I for which every implementer of the field interface that is an I hands out (through the accessor)
	// a value whose static type is an I — "a container's value is a container of its own family"
	families []types.Type
	why      string
}

var kindFactsCache = map[*Ctx]*kindFacts{}

func (c *Ctx) kindFacts() *kindFacts {
	if kf, ok := kindFactsCache[c]; ok {
		return kf
	}
	kf := &kindFacts{byW: map[*types.TypeName]*kindFact{}}
	kindFactsCache[c] = kf // (also the recursion guard: the proofs below run the executor)
	iv := c.Inv()
	if iv.Field == nil {
		kf.why = "no field interface"
		return kf
	}
	fi := iv.Field.Underlying().(*types.Interface)
	for i := 0; i < fi.NumMethods(); i++ {
		if c.isValueAccessor(fi.Method(i)) {
			kf.acc = fi.Method(i)
		}
	}
	if kf.acc == nil {
		kf.why = "no value accessor"
		return kf
	}
	unbox := func(t Term) Term {
		for {
			cv, ok := t.(TConv)
			if !ok || !isEmptyIface(cv.To) {
				return t
			}
			t = cv.X
		}
	}
	facts := map[*types.TypeName]*kindFact{}
	var others []types.Type // static types of what the other implementers return
	for _, impl := range iv.Impls {
		fd := c.Decl("(*" + impl.Obj().Name() + ")." + kf.acc.Name())
		if fd == nil {
			kf.why = "implementer " + impl.Obj().Name() + " has no accessor declaration"
			return kf
		}
		paths := c.NewSX().Run(fd)
		recv := c.recvObj(fd)
		isW := false
		for _, w := range iv.Wrappers {
			if w.Obj() == impl.Obj() {
				isW = true
			}
		}
		var payload *types.Var
		simple := len(paths) == 1 && paths[0].Why == "" && paths[0].End == "return" && len(paths[0].Vals) == 1 && len(paths[0].Effects()) == 0 && len(paths[0].Conds()) == 0
		if isW && simple {
			r := unbox(paths[0].Vals[0])
			if d, ok := r.(TDeref); ok {
				r = d.X
			}
			if sel, ok := r.(TSel); ok {
				base := sel.X
				if d, ok := base.(TDeref); ok {
					base = d.X
				}
				if isParamTerm(base, recv) {
					if _, isI := sel.Field.Type().Underlying().(*types.Interface); !isI {
						payload = sel.Field
					}
				}
			}
		}
		if payload != nil {
			facts[impl.Obj()] = &kindFact{W: impl, K: payload.Type(), Val: payload}
			continue
		}
		for _, p := range paths {
			if p.Why != "" {
				kf.why = "accessor of " + impl.Obj().Name() + " outside the path vocabulary"
				return kf
			}
			if p.End != "return" || len(p.Vals) != 1 {
				continue
			}
			r := unbox(p.Vals[0])
			if _, isNil := r.(TNil); isNil {
				continue
			}
			t := c.termType(r)
			if t == nil || isEmptyIface(t) {
				kf.why = "accessor of " + impl.Obj().Name() + " returns a value of unknown dynamic type"
				return kf
			}
			others = append(others, t)
		}
	}
	for tn, f := range facts {
		for tn2, f2 := range facts {
			if tn != tn2 && types.Identical(f.K, f2.K) {
				kf.why = "two wrappers with the same payload type"
				return kf
			}
		}
		for _, t := range others {
			if it, ok := t.Underlying().(*types.Interface); ok {
				if types.Implements(f.K, it) {
					kf.why = "a payload type implements what a container's accessor returns"
					return kf
				}
			} else if types.Identical(t, f.K) {
				kf.why = "another implementer returns the payload type of " + tn.Name()
				return kf
			}
		}
	}
	kf.byW = facts
	for _, ct := range iv.Conts {
		it, ok := ct.Iface.Underlying().(*types.Interface)
		if !ok {
			continue
		}
		good := true
		for _, impl := range iv.Impls {
			if !types.Implements(types.NewPointer(impl), it) {
				continue
			}
			fd := c.Decl("(*" + impl.Obj().Name() + ")." + kf.acc.Name())
			if fd == nil {
				good = false
				break
			}
			for _, p := range c.NewSX().Run(fd) {
				if p.Why != "" || p.End != "return" || len(p.Vals) != 1 {
					good = false
					break
				}
				t := c.termType(unbox(p.Vals[0]))
				if t == nil || !types.Implements(t, it) {
					good = false
				}
			}
		}
		if good {
			kf.families = append(kf.families, ct.Iface)
		}
	}
	return kf
}

// wrapperOf: T is *atK for a wrapper with a proved payload.
func (kf *kindFacts) wrapperOf(T types.Type) *kindFact {
	p, ok := T.(*types.Pointer)
	if !ok {
		return nil
	}
	n, ok := p.Elem().(*types.Named)
	if !ok {
		return nil
	}
	return kf.byW[n.Obj()]
}

var rangeValueCache = map[*Ctx]map[types.Object]bool{}

// rangeValues: the value variables of range statements over slices, arrays and maps.
func (c *Ctx) rangeValues() map[types.Object]bool {
	if m, ok := rangeValueCache[c]; ok {
		return m
	}
	m := map[types.Object]bool{}
	rangeValueCache[c] = m
	for _, f := range c.Pkg.Syntax {
		ast.Inspect(f, func(n ast.Node) bool {
			if rs, ok := n.(*ast.RangeStmt); ok && rs.Value != nil {
				if o := c.obj(rs.Value); o != nil {
					if tv, ok := c.Info.Types[rs.X]; ok {
						switch tv.Type.Underlying().(type) {
						case *types.Slice, *types.Array, *types.Map:
							m[o] = true
						}
					}
				}
			}
			return true
		})
	}
	return m
}

// unboxNorm: see the head of the file.
func (c *Ctx) unboxNorm(paths []*Path) []*Path {
	kf := c.kindFacts()
	if len(kf.byW) == 0 {
		return paths
	}
	field := c.Inv().Field
	gv := func(x Term) Term { return TCall{Fun: kf.acc, Name: kf.acc.Name(), Recv: x} }
	isMapLoad := func(x Term) (TIndex, bool) {
		if p, ok := x.(TProj); ok && p.K == 0 {
			x = p.X
		}
		ix, ok := x.(TIndex)
		if !ok {
			return TIndex{}, false
		}
		if t := c.termType(ix.X); t != nil {
			if _, isM := t.Underlying().(*types.Map); isM {
				return ix, true
			}
		}
		return TIndex{}, false
	}
	rv := c.rangeValues()
	// element: a field read from a spine, non-nil by the producer discipline
	element := func(x Term) bool {
		t := c.termType(x)
		if t == nil || !types.Identical(t, field) {
			return false
		}
		switch y := x.(type) {
		case TIndex:
			_, isM := isMapLoad(y)
			return !isM
		case TLoop:
			return rv[y.Obj]
		case TVar:
			return rv[y.Obj]
		}
		return false
	}
	isField := func(x Term) bool {
		t := c.termType(x)
		return t != nil && types.Identical(t, field)
	}
	// test: t is the kind test `x.(*atK)` ok / type(x)==*atK of a wrapper
	test := func(t Term) (Term, *kindFact) {
		switch y := t.(type) {
		case TProj:
			if as, ok := y.X.(TAssert); ok && y.K == 1 {
				if f := kf.wrapperOf(as.To); f != nil && isField(as.X) {
					return as.X, f
				}
			}
		case TTypeIs:
			if y.To != nil {
				if f := kf.wrapperOf(y.To); f != nil && isField(y.X) {
					return y.X, f
				}
			}
		}
		return nil, nil
	}
	boxedTest := func(x Term, f *kindFact) Term { return TProj{TAssert{gv(x), f.K}, 1} }
	hit := false
	var rewrite func(t Term) (Term, bool)
	// values: x.(*atK).val (through the comma-ok projection or the switch binding) is x.getVal().(K)
	values := func(t Term) (Term, bool) {
		sel, ok := t.(TSel)
		if !ok {
			return nil, false
		}
		base := sel.X
		if d, ok := base.(TDeref); ok {
			base = d.X
		}
		if p, ok := base.(TProj); ok && p.K == 0 {
			base = p.X
		}
		as, ok := base.(TAssert)
		if !ok {
			return nil, false
		}
		f := kf.wrapperOf(as.To)
		if f == nil || sel.Field != f.Val || !isField(as.X) {
			return nil, false
		}
		return TProj{TAssert{gv(mapTerm(as.X, rewrite)), f.K}, 0}, true
	}
	rewrite = func(t Term) (Term, bool) {
		if r, ok := values(t); ok {
			hit = true
			return r, true
		}
		// a kind test nested in a larger term: both truths must be right, so only elements qualify
		if x, f := test(t); f != nil && element(x) {
			hit = true
			return boxedTest(mapTerm(x, rewrite), f), true
		}
		return nil, false
	}
	loopMemo := map[*LoopRec]*LoopRec{}
	var doPath func(p *Path) (*Path, bool)
	doPath = func(p *Path) (*Path, bool) {
		q := *p
		q.Steps = nil
		touched := false
		// presence of map entries stated on this path
		present := map[string]bool{}
		presentAt := map[string]int{}
		for i, s := range p.Steps {
			if s.Kind == "cond" {
				if pr, ok := s.Cond.T.(TProj); ok && pr.K == 1 {
					if ix, ok := isMapLoad(TProj{pr.X, 0}); ok {
						present[key(ix)] = s.Cond.Truth
						presentAt[key(ix)] = i
					}
				}
			}
		}
		type moved struct {
			after int
			st    Step
		}
		var later []moved
		for i, s := range p.Steps {
			if s.Kind == "cond" {
				if x, f := test(s.Cond.T); f != nil {
					ns := s
					ix, isM := isMapLoad(x)
					switch {
					case s.Cond.Truth && isM:
						// a plain map load that is a wrapper: the key is present
						k := key(ix)
						if _, stated := present[k]; !stated {
							q.Steps = append(q.Steps, Step{Kind: "cond", Cond: Cond{T: TProj{ix, 1}, Truth: true, Node: s.Cond.Node}, Node: s.Node, Env: s.Env, Heap: s.Heap})
						}
						ns.Cond.T = boxedTest(mapTerm(x, rewrite), f)
						touched = true
					case s.Cond.Truth:
						ns.Cond.T = boxedTest(mapTerm(x, rewrite), f)
						touched = true
					case isM:
						k := key(ix)
						pres, stated := present[k]
						switch {
						case !stated:
							// nothing known about the entry: the unboxed test stays
						case !pres:
							touched = true
							continue // no entry: the test says nothing
						case presentAt[k] < i:
							ns.Cond.T = boxedTest(mapTerm(x, rewrite), f)
							touched = true
						default:
							ns.Cond.T = boxedTest(mapTerm(x, rewrite), f)
							later = append(later, moved{presentAt[k], ns})
							touched = true
							continue
						}
					case element(x):
						ns.Cond.T = boxedTest(mapTerm(x, rewrite), f)
						touched = true
					}
					q.Steps = append(q.Steps, ns)
					continue
				}
			}
			hit = false
			bare := s
			bare.Loop = nil // the rounds of a loop are rewritten as paths of their own below, its header here
			one := mapPath(&Path{Steps: []Step{bare}}, rewrite)
			var head *LoopRec
			if s.Loop != nil {
				h := *s.Loop
				h.Iter = nil
				head = mapLoop(&h, rewrite)
			}
			ns := s
			if hit {
				ns = one.Steps[0]
				ns.Loop = s.Loop
				touched = true
			}
			if s.Loop != nil {
				if done, ok := loopMemo[s.Loop]; ok {
					// the same loop on another path: the same rewritten loop (later normalisations identify loops by identity)
					if done != s.Loop {
						ns.Loop = done
						touched = true
					}
					q.Steps = append(q.Steps, ns)
					for _, m := range later {
						if m.after == i {
							q.Steps = append(q.Steps, m.st)
						}
					}
					continue
				}
				var iter []*Path
				any := false
				for _, ip := range s.Loop.Iter {
					r, t := doPath(ip)
					any = any || t
					if r != nil {
						iter = append(iter, r)
					}
				}
				var exh *Path
				if s.Loop.Exhaust != nil {
					var t bool
					exh, t = doPath(s.Loop.Exhaust)
					any = any || t
				}
				if any || hit {
					l := *s.Loop
					if hit && head != nil {
						l = *head
					}
					l.Iter, l.Exhaust = iter, exh
					ns.Loop = &l
					touched = true
				}
				loopMemo[s.Loop] = ns.Loop
			}
			q.Steps = append(q.Steps, ns)
			for _, m := range later {
				if m.after == i {
					q.Steps = append(q.Steps, m.st)
				}
			}
		}
		hit = false
		tail := mapPath(&Path{Vals: p.Vals, Env: p.Env}, rewrite)
		if hit {
			q.Vals, q.Env = tail.Vals, tail.Env
			touched = true
		}
		if fs, feasible := familySteps(c, kf, q.Steps); !feasible {
			return nil, true
		} else if len(fs) != len(q.Steps) {
			q.Steps = fs
			touched = true
		}
		if !touched {
			return p, false
		}
		// a decision stated twice is stated once; a decision contradicted makes the path infeasible
		seen := map[string]bool{}
		var steps []Step
		for _, s := range q.Steps {
			if s.Kind == "cond" {
				ct := s.Cond.T
				if ti, ok := ct.(TTypeIs); ok && ti.To != nil {
					ct = TProj{TAssert{ti.X, ti.To}, 1} // a switch arm for one type and the comma-ok assertion are one decision
				}
				if a, ok := ct.(TProj); ok && a.K == 1 {
					if as, ok := a.X.(TAssert); ok {
						if call, ok := as.X.(TCall); ok && call.Fun != nil && c.isValueAccessor(call.Fun) {
							k := c.keyAcc(ct)
							if truth, dup := seen[k]; dup {
								if truth != s.Cond.Truth {
									return nil, true
								}
								continue
							}
							seen[k] = s.Cond.Truth
						}
					}
				}
			}
			steps = append(steps, s)
		}
		q.Steps = steps
		return &q, true
	}
	var out []*Path
	for _, p := range paths {
		if p.Why != "" {
			return paths
		}
		if r, _ := doPath(p); r != nil {
			out = append(out, r)
		}
	}
	return out
}

// keyAcc: the key of a term with the epochs of its value-accessor calls erased (what a wrapper hands out never changes, C09.R5; a
// container hands out its registered self).
func (c *Ctx) keyAcc(t Term) string {
	return key(mapBU(t, func(u Term) Term {
		if x, ok := u.(TCall); ok && x.Fun != nil && x.Recv != nil && len(x.Args) == 0 && c.isValueAccessor(x.Fun) {
			x.Epoch = 0
			return x
		}
		if x, ok := u.(TProj); ok && x.K == 0 {
			if ix, isIx := x.X.(TIndex); isIx {
				return ix // v, ok := m[k]: v is m[k]
			}
		}
		return u
	}))
}

// pruneDecisions: a decision repeated on a path (same term, same memory epochs) is stated once; a path that decides the same term both
// ways is infeasible and dropped. Over integers `x <= y` and `y < x` are one decision with opposite truths.
func pruneDecisions(paths []*Path) []*Path {
	var out []*Path
	for _, p := range paths {
		seen := map[string]bool{}
		var steps []Step
		feasible, changed := true, false
		for _, s := range p.Steps {
			if s.Kind == "cond" {
				ct, truth := s.Cond.T, s.Cond.Truth
				if b, ok := ct.(TBin); ok && b.Op == token.LEQ && intLike(b.X) && intLike(b.Y) {
					ct, truth = TBin{token.LSS, b.Y, b.X}, !truth
				}
				k := key(ct)
				if was, dup := seen[k]; dup {
					if was != truth {
						feasible = false
						break
					}
					changed = true
					continue
				}
				seen[k] = truth
			}
			steps = append(steps, s)
		}
		if !feasible {
			continue
		}
		if changed {
			q := *p
			q.Steps = steps
			out = append(out, &q)
		} else {
			out = append(out, p)
		}
	}
	return out
}

// familySteps: on a path that established `x is an Object` (x a field), the decision `x.getVal() is an Object` (also asked of the
// asserted x) is known to be true: stated again it is dropped, denied it makes the path infeasible (nil).
func familySteps(c *Ctx, kf *kindFacts, steps []Step) ([]Step, bool) {
	if len(kf.families) == 0 {
		return steps, true
	}
	isFamily := func(T types.Type) bool {
		for _, f := range kf.families {
			if T != nil && types.Identical(T, f) {
				return true
			}
		}
		return false
	}
	known := map[string]bool{} // key(x) + family, established true
	out := make([]Step, 0, len(steps))
	strip := func(x Term) Term {
		if pr, ok := x.(TProj); ok && pr.K == 0 {
			x = pr.X
		}
		if as, ok := x.(TAssert); ok {
			return as.X
		}
		return x
	}
	for _, s := range steps {
		if s.Kind == "cond" {
			if op, T, ok := kindTestOf(s.Cond.T); ok && isFamily(T) {
				if t := c.termType(op); t != nil && types.Identical(t, c.Inv().Field) && s.Cond.Truth {
					known[c.keyAcc(op)+"|"+typeKey(T)] = true
				}
				if call, isCall := op.(TCall); isCall && call.Fun != nil && call.Recv != nil && len(call.Args) == 0 && c.isValueAccessor(call.Fun) {
					if known[c.keyAcc(strip(call.Recv))+"|"+typeKey(T)] {
						if !s.Cond.Truth {
							return nil, false
						}
						continue
					}
				}
			}
		}
		out = append(out, s)
	}
	return out, true
}
