package main

// Finite folding over SX paths: guard domains, safe indexing.

import (
	"go/ast"
	"go/token"
	"go/types"
	"os"
	"sort"
)

// runPaths executes fd with SX and reports the first unsupported construct.
func (c *Ctx) runPaths(fd *ast.FuncDecl) ([]*Path, string) { return c.runPathsWith(fd, nil) }

// runPathsWith: as runPaths, with the executor configured by the rule (what stays opaque, what is followed).
func (c *Ctx) runPathsWith(fd *ast.FuncDecl, conf func(*SX)) ([]*Path, string) {
	x := c.NewSX()
	if conf != nil {
		conf(x)
	}
	paths := x.Run(fd)
	for _, p := range paths {
		if p.Why != "" {
			return paths, p.Why
		}
	}
	v := c.view(fd)
	paths = panicTailNorm(tryExitNorm(paths))
	if !x.KeepUnboxed {
		if os.Getenv("ANYCHECK_SKIP") != "arm" {
			paths = c.kindArmNorm(paths)
		}
		if os.Getenv("ANYCHECK_SKIP") != "unbox" {
			dbg := func(tag string) {
				if os.Getenv("ANYCHECK_LOOPS") == "" {
					return
				}
				for i, p := range paths {
					for _, s := range p.Steps {
						if s.Loop != nil {
							debugf("%s %s path %d loop %p iters %d\n", tag, declName(fd), i, s.Loop, len(s.Loop.Iter))
						}
					}
				}
			}
			dbg("before")
			paths = c.unboxNorm(paths)
			dbg("after")
		}
	}
	paths = v.countdownNorm(v.windowNorm(v.flagNorm(paths)))
	paths = v.collectNorm(v.siblingMerge(v.primitiveWriteNorm(v.sortNorm(v.sortGuardNorm(paths)))))
	if c.quietHeap(fd, paths) {
		paths = v.collapseEpochs(paths)
		v.heapQuiet = true
	}
	return v.normalizeMapKeyLoads(v.shadowKeyNorm(v.snapshotNorm(v.normalizePaths(paths)))), ""
}

// intHook builds a term hook for folding: integer parameters by object, the receiver's count as n, cap as n+3.
func (v *sxView) intHook(n int64, params map[types.Object]int64, extra func(Term) (int64, bool)) func(Term) (int64, bool) {
	return func(t Term) (int64, bool) {
		if extra != nil {
			if x, ok := extra(t); ok {
				return x, true
			}
		}
		switch x := t.(type) {
		case TVar:
			if val, ok := params[x.Obj]; ok {
				return val, true
			}
		case TLoop:
			if val, ok := params[x.Obj]; ok {
				return val, true
			}
		case TBuiltin:
			if x.Name == "cap" && len(x.Args) == 1 && v.isRecvSpine(x.Args[0]) {
				return n + 3, true
			}
		}
		if v.isCountOfRecv(t) {
			return n, true
		}
		return 0, false
	}
}

// outcomeFor selects the path taken for a concrete input: every foldable condition must hold; conditions for which skip
// returns true are treated as free. Returns the set of possible paths.
func pathsFor(paths []*Path, hook func(Term) (int64, bool), skip func(Cond) bool) ([]*Path, string) {
	var sel []*Path
	for _, p := range paths {
		holds := true
		for _, cd := range p.Conds() {
			if skip != nil && skip(cd) {
				continue
			}
			e := &termEnv{hook: hook}
			val, ok := e.bool(cd.T)
			if !ok {
				return nil, e.fail
			}
			if val != cd.Truth {
				holds = false
				break
			}
		}
		if holds {
			sel = append(sel, p)
		}
	}
	return sel, ""
}

// panicDomain folds fd over (n, int params) and compares `panics` with spec. nonInt conditions (type tests etc.) are free.
func (c *Ctx) panicDomain(fd *ast.FuncDecl, nargs int, spec func(n int64, p []int64) bool) (cases int, bad, undec string) {
	paths, why := c.runPaths(fd)
	if why != "" {
		return 0, "", "body outside the path vocabulary: " + why
	}
	v := c.view(fd)
	ps := intParams(c, fd)
	if len(ps) != nargs {
		return 0, "", "unexpected integer parameters"
	}
	consts := c.intConstantsIn(&ast.FuncLit{Type: fd.Type, Body: fd.Body})
	// free decisions (both outcomes are held against the documented domain): type tests and the like, and the length of a text an
	// opaque call returned (`len(self.String()) == 2`), which no integer argument determines
	skip := func(cd Cond) bool {
		if !intFoldable(cd.T) {
			return true
		}
		free := false
		collectSubterms(cd.T, func(u Term) {
			if bl, ok := u.(TBuiltin); ok && bl.Name == "len" && len(bl.Args) == 1 {
				if call, ok := bl.Args[0].(TCall); ok && call.Fun != nil {
					if sig, ok := call.Fun.Type().(*types.Signature); ok && sig.Results().Len() == 1 {
						if b, ok := sig.Results().At(0).Type().Underlying().(*types.Basic); ok && b.Info()&types.IsString != 0 {
							free = true
						}
					}
				}
			}
		})
		return free
	}
	for n := int64(0); n <= 5; n++ {
		vals := smallInputs(n, consts)
		var rec func(k int, cur []int64)
		rec = func(k int, cur []int64) {
			if bad != "" || undec != "" {
				return
			}
			if k == nargs {
				params := map[types.Object]int64{}
				for i, p := range ps {
					params[p] = cur[i]
				}
				sel, why := pathsFor(paths, v.intHook(n, params, nil), skip)
				cases++
				if why != "" {
					undec = why
					return
				}
				if len(sel) == 0 {
					undec = "no path is feasible for n=" + itoa(int(n)) + " args=" + fmtInts(cur)
					return
				}
				want := spec(n, cur)
				for _, p := range sel {
					if (p.End == "panic") != want {
						bad = "n=" + itoa(int(n)) + " args=" + fmtInts(cur) + ": panics=" + boolStr(p.End == "panic") + ", documented domain says " + boolStr(want)
						return
					}
				}
				return
			}
			for _, val := range vals {
				rec(k+1, append(append([]int64(nil), cur...), val))
			}
		}
		rec(0, nil)
		if bad != "" || undec != "" {
			break
		}
	}
	return
}

// intFoldable: a comparison/boolean combination over integer-typed terms (conservatively: contains no type test, no call returning non-int, no nil).
func intFoldable(t Term) bool {
	switch x := t.(type) {
	case TBin:
		switch x.Op {
		case token.LAND, token.LOR:
			return intFoldable(x.X) && intFoldable(x.Y)
		case token.EQL, token.NEQ, token.LSS, token.LEQ, token.GTR, token.GEQ:
			return intLike(x.X) && intLike(x.Y)
		}
	case TUn:
		return x.Op == token.NOT && intFoldable(x.X)
	case TConst:
		return true
	}
	return false
}

func intLike(t Term) bool {
	switch x := t.(type) {
	case TConst:
		return x.Val.Kind().String() == "Int"
	case TVar:
		return isIntType(x.Obj.Type())
	case TLoop:
		return isIntType(x.Obj.Type())
	case TBin:
		return intLike(x.X) && intLike(x.Y)
	case TUn:
		return intLike(x.X)
	case TConv:
		return isIntType(x.To) && intLike(x.X)
	case TBuiltin:
		return x.Name == "len" || x.Name == "cap"
	case TCall:
		if x.Fun != nil {
			sig := x.Fun.Type().(*types.Signature)
			return sig.Results().Len() == 1 && isIntType(sig.Results().At(0).Type())
		}
	case TIndex:
		return true // element of an integer slice (e.g. the variadic indexes); the hook must supply it
	case TProj:
		return true
	}
	return false
}

func isIntType(t types.Type) bool {
	b, ok := t.Underlying().(*types.Basic)
	return ok && b.Info()&types.IsInteger != 0
}

// ---- spine accesses inside terms

type spineAccess struct {
	T     Term // TIndex or TSlice whose X is a list spine
	Base  Term // container whose spine is accessed
	Conds []Cond
	Loops []*LoopRec
	Node  ast.Node
}

func collectSubterms(t Term, f func(Term)) {
	if t == nil {
		return
	}
	f(t)
	switch x := t.(type) {
	case TSel:
		collectSubterms(x.X, f)
	case TCall:
		collectSubterms(x.Recv, f)
		collectSubterms(x.Dyn, f)
		for _, a := range x.Args {
			collectSubterms(a, f)
		}
	case TBuiltin:
		for _, a := range x.Args {
			collectSubterms(a, f)
		}
	case TConv:
		collectSubterms(x.X, f)
	case TBin:
		collectSubterms(x.X, f)
		collectSubterms(x.Y, f)
	case TUn:
		collectSubterms(x.X, f)
	case TIndex:
		collectSubterms(x.X, f)
		collectSubterms(x.I, f)
	case TSlice:
		collectSubterms(x.X, f)
		collectSubterms(x.Lo, f)
		collectSubterms(x.Hi, f)
		collectSubterms(x.Max, f)
	case TAssert:
		collectSubterms(x.X, f)
	case TProj:
		collectSubterms(x.X, f)
	case TLit:
		for _, a := range x.Elts {
			collectSubterms(a, f)
		}
	case TAddr:
		collectSubterms(x.X, f)
	case TDeref:
		collectSubterms(x.X, f)
	case TTypeIs:
		collectSubterms(x.X, f)
	case tTuple:
		for _, a := range x.Elts {
			collectSubterms(a, f)
		}
	}
}

// spineAccesses lists every index/slice of a LIST spine on the paths, with the conditions that precede it.
func (v *sxView) spineAccesses(paths []*Path) []spineAccess {
	var out []spineAccess
	seen := map[string]bool{}
	var walk func(p *Path, prefix []Cond, loops []*LoopRec)
	walk = func(p *Path, prefix []Cond, loops []*LoopRec) {
		conds := append([]Cond(nil), prefix...)
		visit := func(t Term, node ast.Node) {
			collectSubterms(t, func(s Term) {
				var base Term
				switch x := s.(type) {
				case TIndex:
					if b, ct := v.spineOf(x.X); ct != nil && ct.IsList {
						base = b
					}
				case TSlice:
					if b, ct := v.spineOf(x.X); ct != nil && ct.IsList {
						base = b
					}
				}
				if base == nil {
					return
				}
				k := key(s)
				for _, cd := range conds {
					k += "|" + key(cd.T) + boolStr(cd.Truth)
				}
				if seen[k] {
					return
				}
				seen[k] = true
				out = append(out, spineAccess{T: s, Base: base, Conds: append([]Cond(nil), conds...), Loops: append([]*LoopRec(nil), loops...), Node: node})
			})
		}
		for _, s := range p.Steps {
			switch s.Kind {
			case "cond":
				visit(s.Cond.T, s.Node)
				conds = append(conds, s.Cond)
			case "store":
				visit(s.LHS, s.Node)
				visit(s.RHS, s.Node)
			case "call", "go", "defer":
				if s.Call != nil {
					visit(*s.Call, s.Node)
				}
				if s.Blt != nil {
					visit(*s.Blt, s.Node)
				}
			case "loop":
				visit(s.Loop.Over, s.Node)
				if s.Loop.CondT != nil {
					visit(s.Loop.CondT, s.Node)
				}
				for _, ip := range s.Loop.Iter {
					walk(ip, conds, append(loops, s.Loop))
				}
			}
		}
		for _, val := range p.Vals {
			visit(val, p.Node)
		}
	}
	for _, p := range paths {
		walk(p, nil, nil)
	}
	sort.SliceStable(out, func(i, j int) bool { return posOfNode(out[i].Node) < posOfNode(out[j].Node) })
	return out
}

func posOfNode(n ast.Node) token.Pos {
	if n == nil {
		return token.NoPos
	}
	return n.Pos()
}
