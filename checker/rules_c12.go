package main

// C12 — every stored value is normalised to one of seven kinds, consistently reported.

import (
	"fmt"
	"go/ast"
	"go/token"
	"go/types"
	"os"
	"sort"
	"strings"

	"golang.org/x/tools/go/ssa"
)

func init() {
	register(&Property{
		ID: "C12",
		Explanation: "Kind tables rebuilt from the program and checked for agreement: the parseVal type switch (31 arms + panicking default: containers pass through, 7 map and 7 slice flavours go to the From-constructors, scalars to the wrapper of their kind " +
			"through value-preserving conversion chains evaluated with the configuration's int size), the case lists of NewListFrom/NewObjectFrom, both TypeOf switches (7 arms, bijective onto the Type constants, Undefined otherwise), the 12 typed getters, " +
			"and PRODUCERS (SSA): nothing reaches a spine except a parseVal/constructor result or an element of a spine. Values not representable in int are outside the property.",
		Rules: []Rule{
			{ID: "C12.R1", Doc: "parseVal table: every arm maps its Go type to the constructor of the matching kind through value-preserving conversions; default panics", Run: c12R1},
			{ID: "C12.R2", Doc: "flavour agreement: parseVal's slice/map arms = the arms of NewListFrom/NewObjectFrom, each copying element-wise through Add/Set; defaults panic", Run: c12R2},
			{ID: "C12.R3", Doc: "kind table bijection: wrapper <-> TypeOf arm <-> Type constant in both TypeOf switches; typed getters assert Get(arg) to their result type and panic exactly on !ok", Run: c12R3},
			{ID: "C12.R5", Doc: "the mutators store nothing but conversions, one slot per accepted value: Add appends parseVal(v) value by value (a rejected value leaves no slot behind), Set assigns parseVal(v) (= C05.R5 for Add, C06.R1)", Run: func(c *Ctx) {
				n := runAs(c, "C12.R5", c05Sequence, func(o *Obligation) bool { return strings.Contains(o.Construct, "(*list).Add/") })
				n += runAs(c, "C12.R5", c06Set, nil)
				c.R.Floor("C12.R5", n, 3)
			}},
			{ID: "C12.R6", Doc: "NO-RAW-NIL-ON-REJECT: once zero-valued slots are in the receiver's spine no caller-supplied value is converted (parseVal may panic and leave them behind)", Run: c12R6},
			{ID: "C12.R4", Doc: "PRODUCERS: every value stored into a spine is a parseVal/constructor result or an element of a spine; no type assertion to the field interface", Run: c12R4},
		},
	})
}

// wrapperCtor: fn is a package function returning *W for a scalar wrapper W, building W from its parameter; returns W's kind.
func (c *Ctx) wrapperCtor(fn *types.Func) (kind string, ok bool) {
	if fn == nil || fn.Pkg() != c.Types {
		return "", false
	}
	sig := fn.Type().(*types.Signature)
	if sig.Recv() != nil || sig.Results().Len() != 1 {
		return "", false
	}
	p, isP := sig.Results().At(0).Type().(*types.Pointer)
	if !isP {
		return "", false
	}
	n, isN := p.Elem().(*types.Named)
	if !isN {
		return "", false
	}
	var w *types.Named
	for _, x := range c.Inv().Wrappers {
		if x.Obj() == n.Obj() {
			w = x
		}
	}
	if w == nil {
		return "", false
	}
	kind = c.wrapperKind(w)
	fd := c.DeclOf(fn)
	if fd == nil || kind == "" {
		return "", false
	}
	// on every path the function returns the address of a fresh W whose payload (if W has one) is the only parameter, unconverted, and
	// does nothing else — decided on its symbolic paths (a cache lookup, a masked index or a conversion in front of the literal is not this)
	if st, busy := c.ctorMemo[fn]; busy {
		return kind, st == 1
	}
	if c.ctorMemo == nil {
		c.ctorMemo = map[*types.Func]int{}
	}
	c.ctorMemo[fn] = 0 // in progress: not a constructor as far as recursive questions are concerned
	var par types.Object
	if kind != "nil" {
		if sig.Params().Len() != 1 || len(fd.Type.Params.List) != 1 || len(fd.Type.Params.List[0].Names) != 1 {
			return "", false
		}
		par = c.Info.Defs[fd.Type.Params.List[0].Names[0]]
	} else if sig.Params().Len() != 0 {
		return "", false
	}
	x := c.NewSX()
	x.MaxDepth = 1
	good := true
	paths := x.Run(fd)
	for _, p := range paths {
		if p.Why != "" || p.End != "return" || len(p.Vals) != 1 {
			good = false
			break
		}
		t := p.Vals[0]
		if ad, ok := t.(TAddr); ok {
			t = ad.X
		}
		// `obj := W{v}; return &obj`: the literal is bound to an addressed local first (recorded as a store to that local)
		effs := p.Effects()
		if tv, isVar := t.(TVar); isVar && len(effs) == 1 && effs[0].Kind == "store" && sameTerm(effs[0].LHS, tv) {
			t = effs[0].RHS
			effs = nil
		}
		if len(effs) != 0 {
			good = false
			break
		}
		lit, ok := t.(TLit)
		if !ok || lit.Type == nil || !types.Identical(lit.Type, n) {
			good = false
			break
		}
		if kind == "nil" {
			good = len(lit.Elts) == 0
		} else {
			good = len(lit.Elts) == 1 && isParamTerm(lit.Elts[0], par)
		}
		if !good {
			break
		}
	}
	good = good && len(paths) > 0
	if good {
		c.ctorMemo[fn] = 1
	} else {
		c.ctorMemo[fn] = 2
	}
	return kind, good
}

func isIntegerType(t types.Type) (*types.Basic, bool) {
	b, ok := t.Underlying().(*types.Basic)
	return b, ok && b.Info()&types.IsInteger != 0
}

// widens: every value of src is representable in dst.
func (c *Ctx) widens(src, dst *types.Basic) bool {
	ss, ds := c.Pkg.TypesSizes.Sizeof(src), c.Pkg.TypesSizes.Sizeof(dst)
	su, du := src.Info()&types.IsUnsigned != 0, dst.Info()&types.IsUnsigned != 0
	switch {
	case su == du:
		return ds >= ss
	case su && !du:
		return ds > ss
	default:
		return false
	}
}

// typeCasePaths runs a type-switching function and groups its paths by the type the operand was found to have (nil type = the nil case,
// "" key = no test succeeded).
type casePath struct {
	T      types.Type
	IsNil  bool
	None   bool
	Path   *Path
	Assert Term // the operand seen as T
}

func (c *Ctx) typeCasePaths(fd *ast.FuncDecl, x *SX, par types.Object) ([]casePath, string) {
	paths := assertByConds(x.Run(fd)) // `case Object, List: return v.(field)` hands on v
	clean := true
	for _, p := range paths {
		if p.Why != "" {
			clean = false
		}
	}
	if clean {
		// an emptiness guard inside an arm (`if len(items) == 0 { return fresh }` before the copy loop) that decides nothing
		v := c.view(fd)
		paths = v.guardSpecNorm(v.emptyGuardNorm(paths))
	}
	var out []casePath
	for _, p := range paths {
		if p.Why != "" {
			return nil, p.Why
		}
		cp := casePath{Path: p, None: true}
		for _, cd := range p.Conds() {
			// `operand == nil` is the nil case spelled as a comparison
			if b, ok := cd.T.(TBin); ok && (b.Op == token.EQL || b.Op == token.NEQ) {
				x, y := b.X, b.Y
				if _, isNil := x.(TNil); isNil {
					x, y = y, x
				}
				if _, isNil := y.(TNil); isNil && isParamTerm(x, par) {
					cd = Cond{T: TTypeIs{X: x, To: nil}, Truth: cd.Truth == (b.Op == token.EQL), Node: cd.Node}
				}
			}
			op, T, isTest := kindTestOf(cd.T)
			if !isTest || !isParamTerm(op, par) {
				return nil, "decision that is not a type test of the operand: " + c.termStr(cd.T)
			}
			if cd.Truth {
				if !cp.None {
					return nil, "two type tests succeed on one path"
				}
				cp.None = false
				cp.T = T
				cp.IsNil = T == nil
				cp.Assert = TAssert{op, T}
			}
		}
		out = append(out, cp)
	}
	return out, ""
}

func c12R1(c *Ctx) {
	fd := c.NeedDecl("C12.R1", "parseVal")
	if fd == nil {
		return
	}
	par := soleParam(c, fd)
	x := c.NewSX()
	delete(x.NoInline, "parseVal")
	x.budget = 200000
	cps, why := c.typeCasePaths(fd, x, par)
	if why != "" || par == nil {
		c.Ob("C12.R1", "parseVal", fd.Pos()).Undecided("body outside the path vocabulary: %s", why)
		return
	}
	arms := 0
	seenKinds := map[string]int{}
	seenT := map[string]bool{}
	hasDefault := false
	for _, cp := range cps {
		p := cp.Path
		if cp.None {
			hasDefault = true
			c.Ob("C12.R1", "parseVal/default", posOfNode(p.Node)).Check(p.End == "panic" && len(p.Effects()) == 0, "a value of any other Go type panics and nothing is stored", "a value of an unsupported Go type does not simply panic: it could be stored un-normalised")
			continue
		}
		tname := "nil"
		if !cp.IsNil {
			tname = shortType(cp.T)
		}
		if seenT[tname] {
			continue // the same case reached on a second path
		}
		seenT[tname] = true
		arms++
		ob := c.Ob("C12.R1", "parseVal/case "+tname, posOfNode(p.Node))
		if p.End != "return" || len(p.Vals) != 1 {
			ob.Fail("arm does not return a field")
			continue
		}
		res := p.Vals[0]
		// the operand as the arm sees it: narrowed (single-type case / comma-ok) or the parameter itself (multi-type case)
		opnd := func(t Term) bool {
			return sameTerm(t, cp.Assert) || sameTerm(t, TProj{cp.Assert, 0}) || isParamTerm(t, par)
		}
		if !cp.IsNil && c.Inv().ContByIface(cp.T) != nil {
			ob.Check(opnd(res) && len(p.Effects()) == 0, "container operand is stored as is (kind "+c.kindOfType(cp.T)+")", "container arm does not return its operand")
			seenKinds[c.kindOfType(cp.T)]++
			continue
		}
		call, ok := res.(TCall)
		inPlaceKind := ""
		if !cp.IsNil && (!ok || call.Fun == nil) {
			// a map/slice flavour converted in place (an inlined private helper): the same element-wise construction the From-constructors use
			_, isMap := cp.T.Underlying().(*types.Map)
			_, isSlice := cp.T.Underlying().(*types.Slice)
			if isMap || isSlice {
				if msg := c.elementWiseArm(c.view(fd), p, cp.Assert, isSlice); msg != "" {
					ob.Fail("arm neither calls the From-constructor nor builds the container element-wise: %s", msg)
				} else {
					ob.Ok("flavour is converted element-wise into a fresh container (same construction as the From-constructor)")
				}
				if isMap {
					seenKinds["object"]++
				} else {
					seenKinds["list"]++
				}
				continue
			}
		}
		if cp.IsNil && (!ok || call.Fun == nil) {
			// the nil wrapper built in place
			t := res
			if ad, isAd := t.(TAddr); isAd {
				t = ad.X
			}
			if lit, isLit := t.(TLit); isLit && lit.Type != nil && len(lit.Elts) == 0 && len(p.Effects()) == 0 {
				if n, isN := lit.Type.(*types.Named); isN {
					for _, w := range c.Inv().Wrappers {
						if w.Obj() == n.Obj() && c.wrapperKind(w) == "nil" {
							seenKinds["nil"]++
							ob.Ok("nil becomes the nil wrapper (built in place)")
							t = nil
						}
					}
				}
				if t == nil {
					continue
				}
			}
		}
		if !cp.IsNil && (!ok || call.Fun == nil) {
			// the wrapper built in place: &atInt{val: int(v)} — the constructor's body at its only call site
			if kind, arg, isLit := c.wrapperLiteral(res); isLit && len(p.Effects()) == 0 {
				call, ok = TCall{Args: []Term{arg}}, true
				inPlaceKind = kind
			}
		}
		if !ok || (call.Fun == nil && inPlaceKind == "") {
			ob.Fail("arm does not return a constructor call")
			continue
		}
		if !cp.IsNil && inPlaceKind == "" {
			switch u := cp.T.Underlying().(type) {
			case *types.Map:
				good := call.Fun.Name() == "NewObjectFrom" && call.Fun.Pkg() == c.Types && len(call.Args) == 1 && opnd(call.Args[0])
				if b, ok := u.Key().(*types.Basic); !ok || b.Kind() != types.String {
					good = false
				}
				ob.Check(good, "map flavour becomes a fresh Object via NewObjectFrom(operand)", "map arm does not build NewObjectFrom(operand)")
				seenKinds["object"]++
				continue
			case *types.Slice:
				ob.Check(call.Fun.Name() == "NewListFrom" && call.Fun.Pkg() == c.Types && len(call.Args) == 1 && opnd(call.Args[0]), "slice flavour becomes a fresh List via NewListFrom(operand)", "slice arm does not build NewListFrom(operand)")
				seenKinds["list"]++
				continue
			}
		}
		kind, isCtor := inPlaceKind, inPlaceKind != ""
		if !isCtor {
			kind, isCtor = c.wrapperCtor(call.Fun)
		}
		if !isCtor {
			ob.Fail("arm does not call a wrapper constructor (a function building exactly one scalar wrapper from its parameter)")
			continue
		}
		seenKinds[kind]++
		if cp.IsNil {
			ob.Check(kind == "nil" && len(call.Args) == 0, "nil becomes the nil wrapper", "nil arm builds a "+kind+" wrapper")
			continue
		}
		if len(call.Args) != 1 {
			ob.Fail("constructor call has %d arguments", len(call.Args))
			continue
		}
		// conversion chain from the operand
		var chain []types.Type
		cur := call.Args[0]
		for {
			if opnd(cur) {
				break
			}
			cv, ok := cur.(TConv)
			if !ok {
				cur = nil
				break
			}
			chain = append([]types.Type{cv.To}, chain...)
			cur = cv.X
		}
		if cur == nil {
			ob.Fail("constructor argument is not the operand under a chain of conversions")
			continue
		}
		tb, isBasic := cp.T.Underlying().(*types.Basic)
		if !isBasic {
			ob.Fail("scalar arm for non-basic type %s", tname)
			continue
		}
		var wantKind string
		good, why := true, ""
		switch {
		case tb.Info()&types.IsString != 0:
			wantKind = "string"
			good = len(chain) == 0
		case tb.Info()&types.IsBoolean != 0:
			wantKind = "bool"
			good = len(chain) == 0
		case tb.Info()&types.IsInteger != 0:
			wantKind = "int"
			src := tb
			for i, t := range chain {
				db, isInt := isIntegerType(t)
				if !isInt {
					good, why = false, "conversion to non-integer "+shortType(t)
					break
				}
				last := i == len(chain)-1
				if last && db.Kind() == types.Int {
					src = db
					continue
				}
				if !c.widens(src, db) {
					good, why = false, "conversion "+shortType(src)+" -> "+shortType(db)+" does not preserve every value"
					break
				}
				src = db
			}
			if good && src.Kind() != types.Int {
				good, why = false, "chain does not end in int"
			}
		case tb.Info()&types.IsFloat != 0:
			wantKind = "float"
			src := tb
			for _, t := range chain {
				db, ok := t.Underlying().(*types.Basic)
				if !ok || db.Info()&types.IsFloat == 0 || c.Pkg.TypesSizes.Sizeof(db) < c.Pkg.TypesSizes.Sizeof(src) {
					good, why = false, "conversion "+shortType(src)+" -> "+shortType(t)+" is not exact"
					break
				}
				src = db
			}
			if good && src.Kind() != types.Float64 {
				good, why = false, "chain does not end in float64"
			}
		default:
			good, why = false, "unsupported basic type"
		}
		if good && kind != wantKind {
			good, why = false, "Go type "+tname+" is wrapped as kind "+kind+", expected "+wantKind
		}
		if good {
			ob.Ok("%s -> kind %s through %d value-preserving conversion(s)", tname, kind, len(chain))
		} else {
			if why == "" {
				why = "unexpected conversion of a " + wantKind + " operand"
			}
			ob.Fail("%s", why)
		}
	}
	c.R.Floor("C12.R1", arms, 31)
	if !hasDefault {
		c.Ob("C12.R1", "parseVal/default", fd.Pos()).Fail("parseVal has no path for unsupported types")
	}
	var ks []string
	for k := range seenKinds {
		ks = append(ks, k)
	}
	sort.Strings(ks)
	c.Ob("C12.R1", "parseVal/kinds", fd.Pos()).Check(len(ks) == 7, "arms cover exactly the seven kinds "+sprint(ks), "arms cover kinds "+sprint(ks)+", expected seven")
}

// wrapperLiteral: t is &W{payload} (or W{payload}) for a scalar wrapper type W with exactly one element given; returns W's kind and the payload term.
func (c *Ctx) wrapperLiteral(t Term) (kind string, payload Term, ok bool) {
	if ad, isAd := t.(TAddr); isAd {
		t = ad.X
	}
	lit, isLit := t.(TLit)
	if !isLit || lit.Type == nil || len(lit.Elts) != 1 {
		return "", nil, false
	}
	n, isN := lit.Type.(*types.Named)
	if !isN {
		return "", nil, false
	}
	for _, w := range c.Inv().Wrappers {
		if w.Obj() == n.Obj() {
			if st, isSt := w.Underlying().(*types.Struct); isSt && st.NumFields() == 1 {
				return c.wrapperKind(w), lit.Elts[0], true
			}
		}
	}
	return "", nil, false
}

func caseTypes(c *Ctx, ts *ast.TypeSwitchStmt, pred func(types.Type) bool) []string {
	var out []string
	for _, cl := range ts.Body.List {
		for _, te := range cl.(*ast.CaseClause).List {
			if c.isNil(te) {
				continue
			}
			if t := c.typeOf(te); t != nil && pred(t) {
				out = append(out, shortType(t))
			}
		}
	}
	sort.Strings(out)
	return out
}

// elementWiseArm: the path builds a container element-wise from the operand (seen as `operand`): effects are only the creation of
// the container (Init, installation of a fresh spine), exactly one in-order loop over the operand whose every iteration is one
// unconditional installation of the visited entry — Add(value) / Set(key, value) on the result, or the direct forms
// result.val[key] = parseVal(value), result.val = append(result.val, parseVal(value)) — and the result is returned.
func (c *Ctx) elementWiseArm(v *sxView, p *Path, operand Term, isList bool) string {
	msg := c.elementWiseArmShape(v, p, operand, isList)
	if msg == "" {
		return ""
	}
	// not the plain loop shape: decide the construction on the spine model (k = 0..3 entries)
	var par types.Object
	if v.fd != nil {
		par = soleParam(c, v.fd)
	}
	elemKind := ""
	if a, ok := operand.(TAssert); ok {
		elemKind = c.elemKindOf(a.To)
	}
	bad, undec := c.foldBuildInto(v, p, operand, par, false, isList, false, elemKind, wantFrom)
	if bad == "" && undec == "" {
		return ""
	}
	return msg + "; folded on the spine model: " + bad + undec
}

func (c *Ctx) elementWiseArmShape(v *sxView, p *Path, operand Term, isList bool) string {
	verb := "Set"
	if isList {
		verb = "Add"
	}
	if p.End != "return" || len(p.Vals) != 1 {
		return "arm does not return the built container"
	}
	result := p.Vals[0]
	var loop *LoopRec
	nLoop, spread := 0, 0
	for _, s := range p.Effects() {
		switch s.Kind {
		case "loop":
			loop = s.Loop
			nLoop++
		case "call":
			if s.Call != nil && s.Call.Fun != nil && s.Call.Fun.Name() == "Init" {
				continue
			}
			// result.Add(operand...): the variadic Add is itself the in-order element-wise insertion (C05/C12.R4)
			if isList && s.Call != nil && s.Call.Fun != nil && s.Call.Fun.Name() == "Add" && s.Call.Site != nil && s.Call.Site.Ellipsis.IsValid() && s.Call.Recv != nil && sameContainer(s.Call.Recv, result) &&
				len(s.Call.Args) == 1 && (sameTerm(s.Call.Args[0], operand) || sameTerm(s.Call.Args[0], TProj{operand, 0})) {
				spread++
				continue
			}
			return "arm is not: fresh container; one loop over the operand; return it (unexpected effect " + c.stepStr(s) + ")"
		case "store":
			// only the installation of a spine into the container being built
			base := s.LHS
			for {
				if sel, ok := base.(TSel); ok {
					base = sel.X
					continue
				}
				break
			}
			if !sameContainer(base, result) {
				return "store outside the container being built: " + c.stepStr(s)
			}
		default:
			return "arm is not: fresh container; one loop over the operand; return it (unexpected effect " + c.stepStr(s) + ")"
		}
	}
	if nLoop == 0 && spread == 1 {
		return ""
	}
	if nLoop != 1 || spread != 0 {
		return "arm is not: fresh container; one loop over the operand; return it (" + itoa(nLoop) + " loops)"
	}
	if r := v.asRange(loop); r != nil {
		loop = r
	}
	over := loop.Over
	if loop.Range == nil || !(sameTerm(over, operand) || sameTerm(over, TProj{operand, 0})) {
		return "the loop does not range over the operand"
	}
	if len(loop.Iter) != 1 || len(loop.Iter[0].Conds()) != 0 || len(loop.Iter[0].Effects()) != 1 || (loop.Iter[0].End != "fall" && loop.Iter[0].End != "continue") {
		return "the element-wise copy loop is not one unconditional " + verb + " per entry"
	}
	isVal := func(t Term) bool { return loop.Value != nil && isParamTerm(t, loop.Value) }
	isKey := func(t Term) bool { return loop.Key != nil && isParamTerm(t, loop.Key) }
	normalised := func(t Term) bool { // parseVal(value)
		call, ok := t.(TCall)
		return ok && call.Fun != nil && call.Fun.Name() == "parseVal" && call.Fun.Pkg() == c.Types && len(call.Args) == 1 && isVal(call.Args[0])
	}
	resultSpine := func(t Term) bool {
		sel, ok := t.(TSel)
		return ok && sameContainer(sel.X, result)
	}
	s := loop.Iter[0].Effects()[0]
	good := false
	switch s.Kind {
	case "call":
		if s.Call != nil && s.Call.Fun != nil && s.Call.Fun.Name() == verb && s.Call.Recv != nil && sameContainer(s.Call.Recv, result) {
			args := unpack(s.Call.Args)
			if isList {
				good = len(args) == 1 && isVal(args[0])
			} else {
				good = len(args) == 2 && isKey(args[0]) && isVal(args[1])
			}
		}
	case "store":
		if ix, ok := s.LHS.(TIndex); ok && resultSpine(ix.X) && isKey(ix.I) && normalised(s.RHS) {
			good = true
		}
		if isList && resultSpine(s.LHS) {
			if ap, ok := s.RHS.(TBuiltin); ok && ap.Name == "append" && len(ap.Args) == 2 && resultSpine(ap.Args[0]) && normalised(ap.Args[1]) {
				good = true
			}
		}
	}
	if !good {
		return "loop body is not exactly one " + verb + " of the range entry on the result"
	}
	return ""
}

func c12R2(c *Ctx) {
	pv := c.NeedDecl("C12.R2", "parseVal")
	if pv == nil {
		return
	}
	pvx := c.NewSX()
	delete(pvx.NoInline, "parseVal")
	pvx.budget = 200000
	pcps, why := c.typeCasePaths(pv, pvx, soleParam(c, pv))
	if why != "" {
		c.Ob("C12.R2", "parseVal", pv.Pos()).Undecided("%s", why)
		return
	}
	flavours := func(cps []casePath, pred func(types.Type) bool) []string {
		set := map[string]bool{}
		for _, cp := range cps {
			if !cp.None && !cp.IsNil && pred(cp.T) {
				set[shortType(cp.T)] = true
			}
		}
		return keysOf(set)
	}
	isSlice := func(t types.Type) bool { _, ok := t.Underlying().(*types.Slice); return ok }
	isMap := func(t types.Type) bool { _, ok := t.Underlying().(*types.Map); return ok }
	n := 0
	for _, spec := range []struct {
		ctor string
		pred func(types.Type) bool
		verb string
		list bool
	}{{"NewListFrom", isSlice, "Add", true}, {"NewObjectFrom", isMap, "Set", false}} {
		fd := c.NeedDecl("C12.R2", spec.ctor)
		if fd == nil {
			continue
		}
		par := soleParam(c, fd)
		cps, why := c.typeCasePaths(fd, c.NewSX(), par)
		if why != "" {
			c.Ob("C12.R2", spec.ctor, fd.Pos()).Undecided("body outside the path vocabulary: %s", why)
			continue
		}
		a, b := flavours(pcps, spec.pred), flavours(cps, func(types.Type) bool { return true })
		c.Ob("C12.R2", spec.ctor+"/flavours", fd.Pos()).Check(strings.Join(a, ",") == strings.Join(b, ",") && len(a) > 0,
			"accepts exactly the flavours parseVal forwards: "+strings.Join(a, ", "), "parseVal forwards ["+strings.Join(a, ", ")+"] but "+spec.ctor+" handles ["+strings.Join(b, ", ")+"]")
		hasDefault := false
		done := map[string]bool{}
		for _, cp := range cps {
			p := cp.Path
			if cp.None {
				hasDefault = true
				c.Ob("C12.R2", spec.ctor+"/default", posOfNode(p.Node)).Check(p.End == "panic", "an unsupported flavour panics", "an unsupported flavour does not panic (a nil container would be returned)")
				continue
			}
			tname := shortType(cp.T)
			if done[tname] {
				continue
			}
			done[tname] = true
			n++
			ob := c.Ob("C12.R2", spec.ctor+"/case "+tname, posOfNode(p.Node))
			if msg := c.elementWiseArm(c.view(fd), p, cp.Assert, spec.list); msg != "" {
				ob.Fail("%s", msg)
			} else {
				ob.Ok("copies element-wise: one " + spec.verb + " (or direct parseVal installation) per entry of the operand, in range order, into the fresh container that is returned")
			}
		}
		if !hasDefault {
			c.Ob("C12.R2", spec.ctor+"/default", fd.Pos()).Fail("no path for unsupported flavours")
		}
	}
	c.R.Floor("C12.R2", n, 14)
}

// sameContainer: two terms denote the same freshly built container (a literal's address seen through an interface variable).
func sameContainer(a, b Term) bool {
	strip := func(t Term) Term {
		for {
			switch x := t.(type) {
			case TDeref:
				t = x.X
				continue
			case TLoop:
				return TVar{x.Obj}
			}
			return t
		}
	}
	return key(strip(a)) == key(strip(b))
}

func typeConstKind(name string) string {
	if !strings.HasPrefix(name, "Type") {
		return ""
	}
	return strings.ToLower(strings.TrimPrefix(name, "Type"))
}

func (c *Ctx) typeConsts() map[string]string {
	out := map[string]string{} // constant value (exact string) -> kind
	sc := c.Types.Scope()
	for _, n := range sc.Names() {
		k, ok := sc.Lookup(n).(*types.Const)
		if !ok || !k.Exported() {
			continue
		}
		if kind := typeConstKind(n); kind != "" {
			out[k.Val().ExactString()] = kind
		}
	}
	return out
}

func c12R3(c *Ctx) {
	n := 0
	consts := c.typeConsts()
	for _, ct := range c.Inv().Conts {
		name := "(*" + ct.Named.Obj().Name() + ").TypeOf"
		fd := c.NeedDecl("C12.R3", name)
		if fd == nil {
			continue
		}
		par := soleParam(c, fd)
		paths, why := c.runPathsWith(fd, func(x *SX) { x.KeepUnboxed = true }) // TypeOf reports the kind of the wrapper itself
		v := c.view(fd)
		if why != "" || par == nil {
			c.Ob("C12.R3", name, fd.Pos()).Undecided("body outside the path vocabulary: %s", why)
			continue
		}
		isElem := func(t Term) bool {
			if pr, ok := t.(TProj); ok && pr.K == 0 {
				t = pr.X
			}
			ix, ok := t.(TIndex)
			return ok && v.isRecvSpine(ix.X) && isParamTerm(ix.I, par)
		}
		seen := map[string]bool{}
		bad := ""
		for _, p := range paths {
			if p.End != "return" || len(p.Vals) != 1 || len(p.Effects()) != 0 {
				bad = "a path does not simply return a Type"
				break
			}
			kc, ok := simplify(p.Vals[0]).(TConst)
			if !ok {
				bad = "a path returns a non-constant Type"
				break
			}
			reported := consts[kc.Val.ExactString()]
			kind := ""
			for _, cd := range p.Conds() {
				op, T, isTest := kindTestOf(cd.T)
				if !isTest {
					continue
				}
				if !isElem(op) {
					bad = "a kind test examines something other than spine[argument]"
					break
				}
				if cd.Truth {
					if _, isBasic := T.(*types.Basic); isBasic || T == nil {
						bad = "a case type does not identify a stored kind"
						break
					}
					kind = c.kindOfType(T)
					if kind == "" {
						bad = "case type " + shortType(T) + " does not identify a stored kind"
					}
					if (kind == "object" || kind == "list") && !types.IsInterface(T) {
						bad = "the " + kind + " case tests the concrete type " + shortType(T) + ", not the interface: a derived container (a user type embedding the interface) stored in a spine would be reported as TypeUndefined"
					}
				}
			}
			if bad != "" {
				break
			}
			if kind == "" {
				if reported != "undefined" {
					bad = "a path on which no kind test succeeded reports Type" + reported + " instead of TypeUndefined"
				}
				continue
			}
			n++
			ob := c.Ob("C12.R3", name+"/kind "+kind, posOfNode(p.Node))
			if seen[kind] {
				ob.Fail("kind %s is reported on two different paths", kind)
				continue
			}
			seen[kind] = true
			ob.Check(reported == kind, "stored kind "+kind+" is reported as Type"+kind, "stored kind "+kind+" is reported as Type"+reported)
		}
		if bad != "" {
			c.Ob("C12.R3", name, fd.Pos()).Fail("%s", bad)
			continue
		}
		c.Ob("C12.R3", name+"/coverage", fd.Pos()).Check(len(seen) == 7, "all seven kinds are reported, each on its own path; every other path yields TypeUndefined", itoa(len(seen))+" kinds are reported, expected 7")
		for _, m := range pinnedMethods(ct) {
			if !strings.HasPrefix(m.Name(), "Get") || m.Name() == "Get" || m.Name() == "GetTF" {
				continue
			}
			gname := "(*" + ct.Named.Obj().Name() + ")." + m.Name()
			gd := c.Decl(gname)
			if gd == nil {
				c.Ob("C12.R3", gname, token.NoPos).Missing("typed getter has no implementation")
				continue
			}
			n++
			why := typedGetterPaths(c, gd, m)
			ob := c.Ob("C12.R3", gname, gd.Pos())
			if why == "" {
				ob.Ok("asserts self.Get(arg) to the result type, panics exactly when the assertion fails, returns the asserted value")
			} else {
				ob.Fail("typed getter is not `v, ok := self.Get(arg).(T); !ok => panic; return v`: %s", why)
			}
		}
	}
	c.R.Floor("C12.R3", n, 26)
}

func typedGetterPaths(c *Ctx, gd *ast.FuncDecl, m *types.Func) string {
	paths, why := c.runPaths(gd)
	if why != "" {
		return "body outside the path vocabulary: " + why
	}
	v := c.view(gd)
	par := soleParam(c, gd)
	resT := m.Type().(*types.Signature).Results().At(0).Type()
	if len(paths) != 2 {
		// Get's body spelled out instead of called (or Get itself built on a sibling): compare with Get's own paths, continued by
		// the assertion, in the presentation that follows statically called siblings
		cw := composedGetter(c, gd, m)
		if cw == "" {
			return ""
		}
		if os.Getenv("ANYCHECK_DEBUG") != "" {
			fmt.Fprintln(os.Stderr, "composedGetter", declName(gd), ":", cw)
		}
		return "expected exactly two outcomes (kind matches / does not match)"
	}
	for _, p := range paths {
		conds := p.Conds()
		if len(conds) != 1 || len(p.Effects()) != 0 {
			return "more than the one kind decision"
		}
		opnd, asT, ok := kindTestOf(conds[0].T) // comma-ok assertion or one-arm type switch
		if !ok || asT == nil || !types.Identical(asT, resT) {
			return "the decision is not the kind test (comma-ok assertion or type switch) for the result type " + shortType(resT)
		}
		as := TAssert{X: opnd, To: asT}
		nm, args, ok := v.selfCall(as.X)
		if !ok || nm != "Get" || len(args) != 1 || !isParamTerm(args[0], par) {
			return "the asserted value is not self.Get(argument)"
		}
		if conds[0].Truth {
			if p.End != "return" || len(p.Vals) != 1 || !(sameTerm(p.Vals[0], TProj{as, 0}) || sameTerm(p.Vals[0], as)) {
				return "a matching kind does not return the asserted value"
			}
		} else if p.End != "panic" {
			return "a non-matching kind does not panic"
		}
	}
	return ""
}

// composedGetter: "" when the typed getter's outcomes are exactly Get's outcomes continued by the kind assertion: every panic of Get
// under the same conditions; for every value r Get returns, `r.(T)` ok => return the asserted value, !ok => panic. Both functions
// are read in the presentation that follows statically called siblings, so "calls Get" and "contains Get's body" are one thing.
func composedGetter(c *Ctx, gd *ast.FuncDecl, m *types.Func) string {
	recvName := ""
	if gd.Recv != nil && len(gd.Recv.List) == 1 {
		recvName = declName(gd)
		if i := strings.LastIndex(recvName, "."); i > 0 {
			recvName = recvName[:i]
		}
	}
	get := c.Decl(recvName + ".Get")
	if get == nil {
		return "no Get to compare with"
	}
	conf := func(x *SX) { x.InlineStaticSelf = true }
	run := func(fd *ast.FuncDecl) ([]*Path, string) {
		x := c.NewSX()
		conf(x)
		ps := x.Run(fd)
		for _, p := range ps {
			if p.Why != "" {
				return nil, p.Why
			}
		}
		return pruneDecisions(c.unboxNorm(panicTailNorm(ps))), ""
	}
	pGet, why := run(get)
	if why != "" {
		return why
	}
	pX, why := run(gd)
	if why != "" {
		return why
	}
	resT := m.Type().(*types.Signature).Results().At(0).Type()
	sig := func(p *Path, fd *ast.FuncDecl, withVals bool) string {
		q := *p
		if !withVals {
			q.Vals = nil
		}
		return c.pathSignature(&q, nil, c.recvObj(fd), soleParam(c, fd))
	}
	want := map[string]int{}
	for _, p := range pGet {
		if len(p.Effects()) != 0 {
			return "Get has effects"
		}
		switch p.End {
		case "panic":
			want[sig(p, get, false)]++
		case "return":
			if len(p.Vals) != 1 {
				return "Get returns no single value"
			}
			as := TAssert{X: p.Vals[0], To: resT}
			okP, noP := clonePath(p), clonePath(p)
			okP.Steps = append(okP.Steps, Step{Kind: "cond", Cond: Cond{T: TProj{as, 1}, Truth: true}})
			okP.Vals = []Term{TProj{as, 0}}
			noP.Steps = append(noP.Steps, Step{Kind: "cond", Cond: Cond{T: TProj{as, 1}, Truth: false}})
			noP.End, noP.Vals = "panic", nil
			want[sig(okP, get, true)]++
			want[sig(noP, get, false)]++
		default:
			return "Get ends in " + p.End
		}
	}
	for _, p := range pX {
		if len(p.Effects()) != 0 {
			return "the getter has effects"
		}
		s := sig(p, gd, p.End == "return")
		if want[s] == 0 {
			return "an outcome that is not Get's continued by the assertion: " + s
		}
		want[s]--
	}
	for s, n := range want {
		if n != 0 {
			return "an outcome of Get (continued by the assertion) is missing: " + s
		}
	}
	return ""
}

func c12R4(c *Ctx) {
	a := c.E3()
	field := c.Inv().Field
	n := 0
	// producers
	isProducer := func(v ssa.Value) (bool, string) {
		seen := map[ssa.Value]bool{}
		var rec func(v ssa.Value) (bool, string)
		rec = func(v ssa.Value) (bool, string) {
			if seen[v] {
				return true, "cycle"
			}
			seen[v] = true
			switch x := v.(type) {
			case *ssa.Call:
				if cal := x.Call.StaticCallee(); cal != nil && a.inPkg(cal) && types.Identical(cal.Signature.Results().At(0).Type(), field) && x.Call.Signature().Results().Len() == 1 {
					return true, "result of " + cal.Name()
				}
				return false, "result of a call that is not a field producer"
			case *ssa.MakeInterface:
				if p, ok := x.X.Type().(*types.Pointer); ok {
					if nt, ok := p.Elem().(*types.Named); ok && nt.Obj().Pkg() == c.Types {
						if c.Inv().ContOf(nt) != nil {
							return true, "container pointer"
						}
						for _, w := range c.Inv().Wrappers {
							if w.Obj() == nt.Obj() {
								if call, ok := x.X.(*ssa.Call); ok && call.Call.StaticCallee() != nil {
									return true, "wrapper from " + call.Call.StaticCallee().Name()
								}
								return true, "wrapper pointer"
							}
						}
					}
				}
				return false, "interface made from " + shortType(x.X.Type())
			case *ssa.ChangeInterface:
				// only a container interface (List/Object) narrows to field legitimately
				if c.Inv().ContByIface(x.X.Type()) != nil {
					return true, "container interface value"
				}
				return rec(x.X)
			case *ssa.UnOp:
				if ia, ok := x.X.(*ssa.IndexAddr); ok && a.isSpine(ia.X.Type()) {
					return true, "element of a spine"
				}
				return false, "load from non-spine memory"
			case *ssa.Lookup:
				if a.isSpine(x.X.Type()) {
					return true, "element of a spine"
				}
			case *ssa.Extract:
				if nx, ok := x.Tuple.(*ssa.Next); ok {
					if rg, ok := nx.Iter.(*ssa.Range); ok && a.isSpine(rg.X.Type()) {
						return true, "element of a spine"
					}
				}
				if lk, ok := x.Tuple.(*ssa.Lookup); ok && a.isSpine(lk.X.Type()) {
					return true, "element of a spine"
				}
				// item, ok := recv.find(key): a result of a private helper with several results — a producer when the helper returns
				// one there on every return
				if call, ok := x.Tuple.(*ssa.Call); ok {
					if cal := call.Call.StaticCallee(); cal != nil && a.inPkg(cal) && cal.Object() != nil && !cal.Object().Exported() && x.Index < cal.Signature.Results().Len() {
						rets := 0
						for _, b := range cal.Blocks {
							for _, in := range b.Instrs {
								if r, ok := in.(*ssa.Return); ok && x.Index < len(r.Results) {
									rets++
									if ok, why := rec(r.Results[x.Index]); !ok {
										return false, why + " (result of " + cal.Name() + ")"
									}
								}
							}
						}
						if rets > 0 {
							return true, "result #" + itoa(x.Index) + " of the private helper " + cal.Name()
						}
					}
				}
			case *ssa.Phi:
				for _, e := range x.Edges {
					if ok, why := rec(e); !ok {
						return false, why
					}
				}
				return true, "phi of producers"
			case *ssa.Parameter:
				// a field handed to an unexported helper (`push(f field)`): decided at every call site of the helper
				fn := x.Parent()
				if fn == nil || fn.Parent() != nil || fn.Object() == nil || fn.Object().Exported() || !types.Identical(x.Type(), field) {
					break
				}
				idx := -1
				for i, q := range fn.Params {
					if q == x {
						idx = i
					}
				}
				sites := 0
				for _, caller := range a.fns {
					var all []*ssa.Function
					all = append(all, caller)
					for i := 0; i < len(all); i++ {
						all = append(all, all[i].AnonFuncs...)
					}
					for _, f := range all {
						for _, blk := range f.Blocks {
							for _, in := range blk.Instrs {
								for _, op := range in.Operands(nil) {
									if op != nil && *op == ssa.Value(fn) {
										ci, isCall := in.(ssa.CallInstruction)
										if !isCall || ci.Common().Value != ssa.Value(fn) {
											return false, "the helper " + fn.Name() + " is used as a value"
										}
									}
								}
								ci, isCall := in.(ssa.CallInstruction)
								if !isCall || ci.Common().StaticCallee() != fn || idx < 0 || idx >= len(ci.Common().Args) {
									continue
								}
								sites++
								if ok, why := rec(ci.Common().Args[idx]); !ok {
									return false, why + " (argument of " + fn.Name() + ")"
								}
							}
						}
					}
				}
				if sites > 0 {
					return true, "parameter of the private helper " + fn.Name() + ": a producer at each of its " + itoa(sites) + " call sites"
				}
			}
			return false, "value of unknown provenance"
		}
		return rec(v)
	}
	for _, fn := range a.fns {
		var walk func(f *ssa.Function)
		walk = func(f *ssa.Function) {
			for _, b := range f.Blocks {
				for _, in := range b.Instrs {
					var v ssa.Value
					what := ""
					switch x := in.(type) {
					case *ssa.Store:
						if ia, ok := x.Addr.(*ssa.IndexAddr); ok && a.isSpine(ia.X.Type()) {
							v, what = x.Val, "indexed store"
						} else if ia, ok := x.Addr.(*ssa.IndexAddr); ok {
							// element of a literal backing array later sliced into a spine / variadic append
							if arr, ok := ia.X.Type().Underlying().(*types.Pointer); ok {
								if at, ok := arr.Elem().Underlying().(*types.Array); ok && types.Identical(at.Elem(), field) {
									v, what = x.Val, "literal element"
								}
							}
						}
					case *ssa.MapUpdate:
						if a.isSpine(x.Map.Type()) {
							v, what = x.Value, "map assignment"
						}
					case *ssa.TypeAssert:
						if types.Identical(x.AssertedType, field) {
							n++
							if fi, isI := field.Underlying().(*types.Interface); isI && guardedByTypeTest(x.Block(), x.X, func(t types.Type) bool { return types.Implements(t, fi) }) {
								c.Ob("C12.R4", "assert-to-field/"+a.FuncName(fn), x.Pos()).Ok("the asserted value passed a test for a type all of whose values are fields (a container interface) on every way here: the assertion hands on a container")
								continue
							}
							c.Ob("C12.R4", "assert-to-field/"+a.FuncName(fn), x.Pos()).Fail("a value is type-asserted to the field interface: an un-normalised value could enter a spine")
						}
					}
					if what == "" {
						continue
					}
					n++
					ob := c.Ob("C12.R4", "producer/"+a.FuncName(fn)+"@"+a.FuncName(f)+"#"+itoa(indexOfStore(f, in)), in.Pos())
					if ok, why := isProducer(v); ok {
						ob.Ok("%s: %s", what, why)
					} else if k, isConst := v.(*ssa.Const); isConst && k.IsNil() && transientNilOK(c, a.FuncName(fn)) {
						ob.Ok("%s: a nil placeholder that is never visible: the folded spine of %s (C05.R5) shows exactly the model's elements afterwards, none of them a raw nil", what, a.FuncName(fn))
					} else {
						ob.Fail("%s stores a field that is not produced by parseVal/a constructor nor taken from a spine: %s", what, why)
					}
				}
			}
			for _, an := range f.AnonFuncs {
				walk(an)
			}
		}
		walk(fn)
	}
	c.R.Floor("C12.R4", n, 4)
}

func indexOfStore(f *ssa.Function, target ssa.Instruction) int {
	k := 0
	for _, b := range f.Blocks {
		for _, in := range b.Instrs {
			switch in.(type) {
			case *ssa.Store, *ssa.MapUpdate:
				k++
				if in == target {
					return k
				}
			}
		}
	}
	return 0
}

// transientNilOK: the list mutator `name` is one of those whose effect is decided cell by cell on the folded spine (C05.R5) and that
// decision is positive: whatever nil it writes on the way is overwritten or cut off before the method returns.
func transientNilOK(c *Ctx, name string) bool {
	r := newReport("tmp")
	c2 := *c
	c2.R = r
	c05Sequence(&c2)
	for _, o := range r.obls {
		if o.Construct == name+"/sequence-model" {
			return o.Status == Discharged
		}
	}
	return false
}

// guardedByTypeTest: every way from the function's entry to block b passes, last of all branchings on it, the true edge of a comma-ok
// type test `v.(T)` of the very value v with impl(T) (type-switch cases compile to such tests).
func guardedByTypeTest(b *ssa.BasicBlock, v ssa.Value, impl func(types.Type) bool) bool {
	seen := map[*ssa.BasicBlock]bool{}
	var up func(cur *ssa.BasicBlock) bool
	up = func(cur *ssa.BasicBlock) bool {
		if seen[cur] {
			return true
		}
		seen[cur] = true
		if len(cur.Preds) == 0 {
			return false // reached the entry unguarded
		}
		for _, p := range cur.Preds {
			guarded := false
			if len(p.Instrs) > 0 {
				if br, ok := p.Instrs[len(p.Instrs)-1].(*ssa.If); ok && len(p.Succs) == 2 && p.Succs[0] == cur && p.Succs[1] != cur {
					if ex, ok := br.Cond.(*ssa.Extract); ok && ex.Index == 1 {
						if ta, ok := ex.Tuple.(*ssa.TypeAssert); ok && ta.CommaOk && ta.X == v && impl(ta.AssertedType) {
							guarded = true
						}
					}
				}
			}
			if !guarded && !up(p) {
				return false
			}
		}
		return true
	}
	return up(b)
}

// c12R6 — NO-RAW-NIL-ON-REJECT. Slots reserved ahead of their conversions (`ego.val = append(ego.val, make([]field, n)...)`, then
// `ego.val[k] = parseVal(v)` slot by slot) are raw nil fields until they are filled. In a container that existed before the call that
// is a state a caller can come to see: parseVal panics on an unsupported value, the panic can be recovered, and the reserved slots stay
// behind. Rule: in a method of a container, once zero-valued field slots have been put into the RECEIVER's spine (a made slice of
// non-zero length appended to it or installed as it), no conversion of a caller-supplied value may follow on any path. Containers made
// in the same call are exempt: a panic discards them with everything in them.
func c12R6(c *Ctx) {
	a := c.E3()
	pv := a.ByName("parseVal")
	n := 0
	if pv == nil {
		c.Ob("C12.R6", "parseVal", token.NoPos).Missing("parseVal not found")
		return
	}
	for _, f := range a.fns {
		if f.Signature.Recv() == nil || len(f.Params) == 0 {
			continue
		}
		recv := f.Params[0]
		pt, ok := recv.Type().(*types.Pointer)
		if !ok {
			continue
		}
		named, ok := pt.Elem().(*types.Named)
		if !ok || c.Inv().ContOf(named) == nil {
			continue
		}
		// loads of the receiver's spine
		isRecvSpine := func(v ssa.Value) bool {
			if u, ok := v.(*ssa.UnOp); ok && u.Op == token.MUL {
				if fa, ok := u.X.(*ssa.FieldAddr); ok && fa.X == ssa.Value(recv) {
					return a.isSpine(fa.Type().(*types.Pointer).Elem())
				}
			}
			if sl, ok := v.(*ssa.Slice); ok {
				if u, ok := sl.X.(*ssa.UnOp); ok && u.Op == token.MUL {
					if fa, ok := u.X.(*ssa.FieldAddr); ok && fa.X == ssa.Value(recv) {
						return true
					}
				}
			}
			return false
		}
		var creators []ssa.Instruction
		for _, b := range f.Blocks {
			for _, in := range b.Instrs {
				switch x := in.(type) {
				case *ssa.Call:
					if bi, ok := x.Call.Value.(*ssa.Builtin); ok && bi.Name() == "append" && len(x.Call.Args) == 2 && isRecvSpine(x.Call.Args[0]) {
						if mk, ok := x.Call.Args[1].(*ssa.MakeSlice); ok && a.isSpine(mk.Type()) {
							if k, isK := mk.Len.(*ssa.Const); !isK || k.Int64() != 0 {
								// append(spine, make(…)...)[:len(spine)] only grows the capacity: the new slots lie beyond the length
								onlyCap := x.Referrers() != nil && len(*x.Referrers()) > 0
								if onlyCap {
									for _, ref := range *x.Referrers() {
										sl, isSl := ref.(*ssa.Slice)
										if !isSl || sl.X != ssa.Value(x) || sl.High == nil || sl.Low != nil {
											onlyCap = false
											break
										}
										hc, isCall := sl.High.(*ssa.Call)
										if !isCall {
											onlyCap = false
											break
										}
										bl, isB := hc.Call.Value.(*ssa.Builtin)
										if !isB || bl.Name() != "len" || len(hc.Call.Args) != 1 || !isRecvSpine(hc.Call.Args[0]) {
											onlyCap = false
											break
										}
									}
								}
								if !onlyCap {
									creators = append(creators, in)
								}
							}
						}
					}
				case *ssa.Store:
					if fa, ok := x.Addr.(*ssa.FieldAddr); ok && fa.X == ssa.Value(recv) {
						if mk, ok := x.Val.(*ssa.MakeSlice); ok && a.isSpine(mk.Type()) {
							if k, isK := mk.Len.(*ssa.Const); !isK || k.Int64() != 0 {
								creators = append(creators, in)
							}
						}
					}
				}
			}
		}
		if len(creators) == 0 {
			continue
		}
		fromParam := func(v ssa.Value) bool {
			seen := map[ssa.Value]bool{}
			var rec func(v ssa.Value) bool
			rec = func(v ssa.Value) bool {
				if v == nil || seen[v] {
					return false
				}
				seen[v] = true
				switch x := v.(type) {
				case *ssa.Parameter:
					return x != recv
				case *ssa.UnOp:
					return rec(x.X)
				case *ssa.IndexAddr:
					return rec(x.X)
				case *ssa.Index:
					return rec(x.X)
				case *ssa.Extract:
					return rec(x.Tuple)
				case *ssa.Next:
					return rec(x.Iter)
				case *ssa.Range:
					return rec(x.X)
				case *ssa.Lookup:
					return rec(x.X)
				case *ssa.Slice:
					return rec(x.X)
				case *ssa.MakeInterface:
					return rec(x.X)
				case *ssa.ChangeInterface:
					return rec(x.X)
				case *ssa.ChangeType:
					return rec(x.X)
				case *ssa.TypeAssert:
					return rec(x.X)
				case *ssa.Phi:
					for _, e := range x.Edges {
						if rec(e) {
							return true
						}
					}
				}
				return false
			}
			return rec(v)
		}
		reach := func(from, to ssa.Instruction) bool {
			fb, tb := from.Block(), to.Block()
			if fb == tb {
				fi, ti := -1, -1
				for i, in := range fb.Instrs {
					if in == from {
						fi = i
					}
					if in == to {
						ti = i
					}
				}
				if ti > fi {
					return true
				}
			}
			seen := map[*ssa.BasicBlock]bool{}
			work := append([]*ssa.BasicBlock(nil), fb.Succs...)
			for len(work) > 0 {
				b := work[0]
				work = work[1:]
				if seen[b] {
					continue
				}
				seen[b] = true
				if b == tb {
					return true
				}
				work = append(work, b.Succs...)
			}
			return false
		}
		for k, cr := range creators {
			n++
			ob := c.Ob("C12.R6", "reserved-slots/"+a.FuncName(f)+"#"+itoa(k+1), cr.Pos())
			bad := ""
			for _, b := range f.Blocks {
				for _, in := range b.Instrs {
					call, ok := in.(*ssa.Call)
					if !ok || call.Call.StaticCallee() != pv || len(call.Call.Args) != 1 {
						continue
					}
					if fromParam(call.Call.Args[0]) && reach(cr, in) {
						bad = "zero-valued slots are put into the receiver's spine and a caller-supplied value is converted afterwards (" + c.Fset.Position(in.Pos()).String() + "): when parseVal rejects it the panic leaves raw nil fields in the container"
					}
				}
			}
			if bad != "" {
				ob.Fail("%s", bad)
			} else {
				ob.Ok("zero-valued slots put into the receiver's spine are followed by no conversion of a caller-supplied value")
			}
		}
	}
	c.Ob("C12.R6", "reserved-slots", token.NoPos).Ok("%d reservations of zero-valued slots in a receiver's spine examined", n)
}
