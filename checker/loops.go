package main

// Loop-shape helpers shared by C14, C08, C07, C02, C13, C15.

import (
	"go/ast"
	"go/token"
	"go/types"
)

type spineLoop struct {
	Stmt  *ast.RangeStmt
	Key   types.Object // nil if blank/absent
	Value types.Object // nil if blank/absent
	Depth int          // nesting depth inside other loops of the same function
}

// spineLoops returns the range statements of fd (function literals excluded) that range over the receiver's own spine.
func spineLoops(c *Ctx, fd *ast.FuncDecl) []spineLoop {
	var out []spineLoop
	var visit func(n ast.Node, depth int)
	visit = func(n ast.Node, depth int) {
		ast.Inspect(n, func(m ast.Node) bool {
			if m == n {
				return true
			}
			switch x := m.(type) {
			case *ast.FuncLit:
				return false
			case *ast.RangeStmt:
				if c.isRecvSpine(fd, x.X) {
					sl := spineLoop{Stmt: x, Depth: depth}
					if id, ok := x.Key.(*ast.Ident); ok && id.Name != "_" {
						sl.Key = c.Info.Defs[id]
						if sl.Key == nil {
							sl.Key = c.Info.Uses[id]
						}
					}
					if id, ok := x.Value.(*ast.Ident); ok && id.Name != "_" {
						sl.Value = c.Info.Defs[id]
						if sl.Value == nil {
							sl.Value = c.Info.Uses[id]
						}
					}
					out = append(out, sl)
				}
				visit(x.Body, depth+1)
				return false
			case *ast.ForStmt:
				visit(x.Body, depth+1)
				return false
			}
			return true
		})
	}
	visit(fd.Body, 0)
	return out
}

// writesVar reports whether node assigns to / increments the given variable (outside function literals).
func writesVar(c *Ctx, n ast.Node, v types.Object) bool {
	found := false
	inspectNoLit(n, func(m ast.Node) bool {
		switch x := m.(type) {
		case *ast.AssignStmt:
			for _, l := range x.Lhs {
				if c.obj(l) == v && v != nil {
					if x.Tok == token.DEFINE && c.Info.Defs[unparen(l).(*ast.Ident)] != nil {
						continue
					}
					found = true
				}
			}
		case *ast.IncDecStmt:
			if c.obj(x.X) == v && v != nil {
				found = true
			}
		case *ast.UnaryExpr:
			if x.Op == token.AND && c.obj(x.X) == v && v != nil {
				found = true // address taken: may be written through the pointer
			}
		}
		return true
	})
	return found
}
