package main

// C19 — derived structures keep their identity through fluent calls and storage.

import (
	"go/ast"
	"go/token"
	"go/types"
	"strings"

	"golang.org/x/tools/go/ssa"
)

// the 33 methods the property names as returning the updated / unchanged container
var c19Fluent = map[string][]string{
	"list": {"Add", "Insert", "Replace", "Delete", "Pop", "Clear", "Sort", "Reverse", "ForEach", "ForEachValue", "ForEachObject", "ForEachList",
		"ForEachString", "ForEachBool", "ForEachInt", "ForEachFloat", "ForEachAsync", "SetTF", "UnsetTF"},
	"object": {"Set", "Unset", "Clear", "ForEach", "ForEachValue", "ForEachObject", "ForEachList", "ForEachString", "ForEachBool", "ForEachInt",
		"ForEachFloat", "ForEachAsync", "SetTF", "UnsetTF"},
}

func init() {
	register(&Property{
		ID: "C19",
		Explanation: "Structural necessary conditions of identity preservation for derived (embedding) types, decided on the SSA form with the E3 origin lattice: " +
			"every method of List/Object returning its own interface is classified from the origins of ALL its return statements (fluent = registered ego only, never the bare receiver; fresh; element getter); " +
			"Init/Ego/ptr discipline; container getVal yields the ego; parseVal stores containers unchanged; nothing hands the bare receiver to callbacks, typed slices or results. " +
			"Decides the shape of the code, not run-time identity of values; user types overriding methods are outside.",
		Rules: []Rule{
			{ID: "C19.R1", Doc: "every return of every self-typed interface method is fresh, an element, or the registered ego (never the bare receiver); the 33 named fluent methods return the ego on every path", Run: c19R1},
			{ID: "C19.R2", Doc: "Init stores its argument in ptr, Ego returns ptr, nothing else writes ptr, every container allocation is registered with Init(self)", Run: c19R2},
			{ID: "C19.R3", Doc: "container getVal returns the registered ego", Run: c19R3},
			{ID: "C19.R4", Doc: "parseVal returns Object/List operands unchanged", Run: c19R4},
			{ID: "C19.R5", Doc: "no method hands its bare receiver to a callback, a typed slice, a result container or a comparison hand-out", Run: c19R5},
			{ID: "C19.R6", Doc: "a stored element is never tested for the concrete container types (*list, *object): a derived value is neither, the container interfaces / TypeOf decide what is a container", Run: c19R6},
			{ID: "C19.R8", Doc: "TypeOf reports a stored derived container by its interface, so tree-form writes and kind tests treat it as the container it is (= C12.R3)", Run: func(c *Ctx) {
				c.R.Floor("C19.R8", runAs(c, "C19.R8", c12R3, func(o *Obligation) bool { return strings.Contains(o.Construct, "TypeOf") }), 2)
			}},
			{ID: "C19.R7", Doc: "tree-form reads reach the stored value: GetTF splits every path into exactly the segments stepwise navigation uses and hands back what Get returns (= C10.R1 for GetTF)", Run: func(c *Ctx) {
				c.R.Floor("C19.R7", runAs(c, "C19.R7", c10Run, func(o *Obligation) bool { return strings.Contains(o.Construct, "GetTF") }), 2)
			}},
		},
	})
}

func c19R1(c *Ctx) {
	a := c.E3()
	total, fluent := 0, 0
	for _, ct := range c.Inv().Conts {
		if ct.Iface == nil {
			c.Ob("C19.R1", ct.Named.Obj().Name(), token.NoPos).Missing("container has no registered-ego field")
			continue
		}
		named := map[string]bool{}
		for _, n := range c19Fluent[ct.Named.Obj().Name()] {
			named[n] = true
		}
		seenNamed := map[string]bool{}
		for _, m := range ifaceMethods(ct.Iface) {
			sig := m.Type().(*types.Signature)
			if sig.Results().Len() != 1 || !types.Identical(sig.Results().At(0).Type(), ct.Iface) {
				continue
			}
			name := "(*" + ct.Named.Obj().Name() + ")." + m.Name()
			fn := a.ByName(name)
			if fn == nil {
				c.Ob("C19.R1", name, token.NoPos).Missing("no in-package implementation of interface method %s", m.Name())
				continue
			}
			total++
			s := a.sum[fn]
			if len(s.RetEach) == 0 {
				c.Ob("C19.R1", name, fn.Pos()).Undecided("method has no value-returning return statement")
				continue
			}
			class := ""
			for i, o := range s.RetEach {
				ob := c.Ob("C19.R1", name+"#ret"+itoa(i+1), s.RetPos[i])
				roots := o & oROOTS
				switch {
				case o&oBARE != 0:
					ob.Fail("returns the bare receiver (origin %s): a derived type embedding this container would get the embedded value back instead of its registered outer value", o)
					class = "bad"
				case roots == oRECV && o&oVIAEGO != 0:
					ob.Ok("origin %s: the registered ego (Ego()/ptr or a fluent call on it)", o)
					if class == "" || class == "fluent" {
						class = "fluent"
					} else if class != "bad" {
						class = "mixed"
					}
				case roots == oRECV:
					ob.Fail("returns the receiver without going through Ego()/ptr (origin %s)", o)
					class = "bad"
				case roots&oRECV != 0:
					ob.Fail("return mixes the receiver with other origins (%s)", o)
					class = "bad"
				case named[m.Name()]:
					ob.Fail("method documented as returning the updated/unchanged container returns something else (origin %s), so a fluent chain loses the registered outer value", o)
					class = "bad"
				default:
					ob.Ok("origin %s: not the receiver (fresh container, element or argument)", o)
					if class == "" || class == "other" {
						class = "other"
					} else if class != "bad" {
						class = "mixed"
					}
				}
			}
			if class == "mixed" {
				c.Ob("C19.R1", name, fn.Pos()).Fail("method returns the ego on some paths and another container on others")
			}
			if named[m.Name()] {
				seenNamed[m.Name()] = true
				if class == "fluent" {
					fluent++
				}
			}
		}
		for n := range named {
			if !seenNamed[n] {
				c.Ob("C19.R1", "(*"+ct.Named.Obj().Name()+")."+n, token.NoPos).Missing("fluent method %s named by the property is no longer a self-returning method of the interface", n)
			}
		}
	}
	c.R.Floor("C19.R1", total, 60)
	c.R.Count("C19 fluent methods classified", fluent)
}

func itoa(i int) string {
	if i == 0 {
		return "0"
	}
	s := ""
	neg := i < 0
	if neg {
		i = -i
	}
	for i > 0 {
		s = string(rune('0'+i%10)) + s
		i /= 10
	}
	if neg {
		s = "-" + s
	}
	return s
}

func c19R2(c *Ctx) {
	a := c.E3()
	n := 0
	for _, ct := range c.Inv().Conts {
		tn := ct.Named.Obj().Name()
		// every store to ptr
		for _, fn := range a.fns {
			for _, e := range a.eff[fn] {
				if e.Kind != "store.ptr" {
					continue
				}
				st := e.Instr.(*ssa.Store)
				fa := st.Addr.(*ssa.FieldAddr)
				if p, ok := fa.X.Type().(*types.Pointer); !ok || !(isNamed(p.Elem(), ct.Named) || ct.Base != nil && types.Identical(p.Elem(), ct.Base.Type())) {
					continue
				} else if !isNamed(p.Elem(), ct.Named) && len(fn.Params) > 0 {
					// a base struct shared by both containers: the store belongs to the container whose method (or whose base's method) it is in
					if rp, ok := fn.Params[0].Type().(*types.Pointer); ok {
						if rn, ok := rp.Elem().(*types.Named); ok && c.Inv().ContOf(rn) != nil && c.Inv().ContOf(rn) != ct {
							continue
						}
					}
				}
				if k, isConst := st.Val.(*ssa.Const); isConst && k.IsNil() {
					if _, lit := fa.X.(*ssa.Alloc); lit {
						continue // `&list{ptr: nil, …}`: the zero value spelled out in the literal of a container allocated here
					}
				}
				n++
				ob := c.Ob("C19.R2", "ptr-store/"+a.FuncName(fn), e.Pos)
				if al := selfRegistered(st, fa); al != nil {
					ob.Ok("a container allocated in this function is registered with itself (self.ptr = self), what Init(self) does")
					continue
				}
				par, isParam := st.Val.(*ssa.Parameter)
				onRecv := len(fn.Params) > 0 && fa.X == fn.Params[0]
				if inner, ok := fa.X.(*ssa.FieldAddr); ok && len(fn.Params) > 0 && inner.X == fn.Params[0] && ct.Base != nil {
					// recv.base.self = ptr: the ego field in the embedded base struct, written by the container's own Init
					if bf := a.structField(inner.X, inner.Field); bf != nil && sameField(bf, ct.Base) {
						onRecv = true
					}
				}
				if mi, ok := st.Val.(*ssa.ChangeInterface); ok && !isParam {
					par, isParam = mi.X.(*ssa.Parameter) // List handed on as the common interface the base keeps it under
				}
				if isParam && len(fn.Params) == 2 && par == fn.Params[1] && onRecv && len(a.eff[fn]) == 1 && len(fn.Blocks) == 1 {
					ob.Ok("unconditionally (single basic block) stores its only argument into the receiver's ptr and has no other effect")
				} else if isParam && len(fn.Blocks) != 1 {
					ob.Fail("registration of the ego is conditional (%d basic blocks): some Init(ptr) call may leave a previous ptr in place, so a second-level derived type is not registered", len(fn.Blocks))
				} else {
					ob.Fail("ptr of %s is written outside a pure registration method (value origin %s)", tn, e.Value)
				}
			}
		}
		// no whole-struct assignment into an existing container (it carries another container's ptr, or nil, along)
		for _, fn := range a.fns {
			for _, e := range a.eff[fn] {
				if e.Kind != "store.struct" {
					continue
				}
				st := e.Instr.(*ssa.Store)
				if p, ok := st.Addr.Type().(*types.Pointer); !ok || !isNamed(p.Elem(), ct.Named) {
					continue
				}
				n++
				c.Ob("C19.R2", "struct-store/"+a.FuncName(fn), e.Pos).Fail("a whole %s struct is assigned into an existing container: its registered ego is overwritten with that of the source (or nil), so Ego() and every fluent method stop returning the derived value", tn)
			}
		}
		// Ego returns ptr
		if fd := c.methodDecl(ct, "Ego"); fd == nil {
			c.Ob("C19.R2", "(*"+tn+").Ego", token.NoPos).Missing("Ego not found")
		} else {
			n++
			c.Ob("C19.R2", "(*"+tn+").Ego", fd.Pos()).Check(c.isEgoAccessor(c.FuncObj(fd)), "body is `return recv.ptr`", "Ego does not simply return the ptr field")
		}
	}
	// every allocation of a container struct is registered with Init(self)
	for _, fn := range a.fns {
		var walk func(f *ssa.Function)
		walk = func(f *ssa.Function) {
			for _, b := range f.Blocks {
				for _, in := range b.Instrs {
					al, ok := in.(*ssa.Alloc)
					if !ok {
						continue
					}
					nt, ok := al.Type().(*types.Pointer).Elem().(*types.Named)
					if !ok || c.Inv().ContOf(nt) == nil {
						continue
					}
					n++
					ob := c.Ob("C19.R2", "alloc/"+a.FuncName(fn)+"#"+nt.Obj().Name(), al.Pos())
					if registeredWithInit(a, rootOf(f), al) {
						ob.Ok("allocation is passed to Init as receiver and as argument")
					} else {
						ob.Fail("a %s is allocated but never registered with Init(self): Ego() would return nil", nt.Obj().Name())
					}
				}
			}
			for _, an := range f.AnonFuncs {
				walk(an)
			}
		}
		walk(fn)
	}
	c.R.Floor("C19.R2", n, 6)
}

func isNamed(t types.Type, n *types.Named) bool {
	x, ok := t.(*types.Named)
	return ok && x.Obj() == n.Obj()
}

// registeredWithInit: in root (incl. closures) there is a call X.Init(Y) where X and Y both derive from alloc.
// selfRegistered: the store writes the very container allocated in this function into its own ptr field; returns that allocation.
func selfRegistered(st *ssa.Store, fa *ssa.FieldAddr) *ssa.Alloc {
	strip := func(v ssa.Value) ssa.Value {
		for {
			switch x := v.(type) {
			case *ssa.MakeInterface:
				v = x.X
			case *ssa.ChangeInterface:
				v = x.X
			default:
				return v
			}
		}
	}
	al, ok := fa.X.(*ssa.Alloc)
	if !ok || !al.Heap || strip(st.Val) != ssa.Value(al) {
		return nil
	}
	return al
}

// isRegistration: fn's only effect is the store of its argument into the ego field of its receiver — directly, or by handing both on
// to a helper of the embedded base that is such a function (`func (l *list) Init(p List) { l.bind(p) }`).
func isRegistration(a *E3, fn *ssa.Function, depth int) bool {
	effs := a.eff[fn]
	if len(effs) != 1 {
		return false
	}
	if effs[0].Kind == "store.ptr" {
		return true
	}
	if depth == 0 || !strings.HasPrefix(effs[0].Kind, "call:") || len(fn.Params) != 2 || len(fn.Blocks) != 1 {
		return false
	}
	call, ok := effs[0].Instr.(*ssa.Call)
	if !ok {
		return false
	}
	args := callArgs(call.Common())
	if len(args) != 2 {
		return false
	}
	recv := args[0]
	if fa, ok := recv.(*ssa.FieldAddr); ok {
		recv = fa.X // &recv.base
	}
	val := args[1]
	if ci, ok := val.(*ssa.ChangeInterface); ok {
		val = ci.X
	}
	if recv != ssa.Value(fn.Params[0]) || val != ssa.Value(fn.Params[1]) {
		return false
	}
	for _, cal := range a.Callees(call.Common()) {
		if !isRegistration(a, cal, depth-1) {
			return false
		}
	}
	return len(a.Callees(call.Common())) > 0
}

func registeredWithInit(a *E3, root *ssa.Function, al *ssa.Alloc) bool {
	derives := func(v ssa.Value) bool {
		seen := map[ssa.Value]bool{}
		var rec func(v ssa.Value) bool
		rec = func(v ssa.Value) bool {
			if v == al {
				return true
			}
			if seen[v] {
				return false
			}
			seen[v] = true
			switch x := v.(type) {
			case *ssa.MakeInterface:
				return rec(x.X)
			case *ssa.ChangeInterface:
				return rec(x.X)
			case *ssa.TypeAssert:
				return rec(x.X)
			case *ssa.FieldAddr:
				// &alloc.base: the receiver of Init when it is promoted from the embedded base struct that holds the ego field
				if a.isEgoHolderPtr(x.Type()) && !a.isContainerPtr(x.Type()) {
					return rec(x.X)
				}
				return false
			case *ssa.Phi:
				for _, e := range x.Edges {
					if !rec(e) {
						return false
					}
				}
				return len(x.Edges) > 0
			case *ssa.UnOp:
				if x.Op == token.MUL {
					// load from a cell: every store into that cell must derive from alloc
					cell := a.cellOf(x.X)
					ok, any := true, false
					var scan func(f *ssa.Function)
					scan = func(f *ssa.Function) {
						for _, b := range f.Blocks {
							for _, in := range b.Instrs {
								if st, isSt := in.(*ssa.Store); isSt && a.cellOf(st.Addr) == cell {
									any = true
									if !rec(st.Val) {
										ok = false
									}
								}
							}
						}
						for _, an := range f.AnonFuncs {
							scan(an)
						}
					}
					scan(root)
					return ok && any
				}
			}
			return false
		}
		return rec(v)
	}
	found := false
	var scan func(f *ssa.Function)
	scan = func(f *ssa.Function) {
		for _, b := range f.Blocks {
			for _, in := range b.Instrs {
				if st, isSt := in.(*ssa.Store); isSt {
					// the registration written out in the function that allocates: self.ptr = self
					if fa, ok := st.Addr.(*ssa.FieldAddr); ok && a.isPtrField(fa) && derives(fa.X) && derives(st.Val) && initOnEveryExit(al, st) {
						found = true
					}
					continue
				}
				call, ok := in.(*ssa.Call)
				if !ok {
					continue
				}
				cc := call.Common()
				args := callArgs(cc)
				if len(args) != 2 {
					continue
				}
				isInit := false
				for _, cal := range a.Callees(cc) {
					if isRegistration(a, cal, 2) {
						isInit = true
					}
				}
				if isInit && derives(args[0]) && derives(args[1]) && initOnEveryExit(al, call) {
					found = true
				}
			}
		}
		for _, an := range f.AnonFuncs {
			scan(an)
		}
	}
	scan(root)
	return found
}

func c19R3(c *Ctx) {
	a := c.E3()
	n := 0
	for _, ct := range c.Inv().Conts {
		name := "(*" + ct.Named.Obj().Name() + ").getVal"
		fn := a.ByName(name)
		if fn == nil {
			c.Ob("C19.R3", name, token.NoPos).Missing("getVal not found")
			continue
		}
		s := a.sum[fn]
		for i, o := range s.RetEach {
			n++
			ob := c.Ob("C19.R3", name+"#ret"+itoa(i+1), s.RetPos[i])
			if o&oROOTS == oRECV && o&oVIAEGO != 0 && o&oBARE == 0 {
				ob.Ok("origin %s: Get and every retrieval path built on getVal hand back the registered outer value", o)
			} else {
				ob.Fail("container getVal yields %s, not the registered ego: a stored derived value would come back as its embedded part (or as something else)", o)
			}
		}
	}
	c.R.Floor("C19.R3", n, 2)
}

// pvArm: one type case of parseVal as its SX paths show it (result variables, single-exit style and helpers do not matter).
type pvArm struct {
	Name      string
	T         types.Type
	Container bool // the case type is one of the container interfaces
	Operand   bool // the arm returns its operand itself, without effects
	Fresh     bool // the arm returns something allocated inside the call
	Pos       token.Pos
}

func parseValArms(c *Ctx) ([]pvArm, string) {
	fd := c.Decl("parseVal")
	if fd == nil {
		return nil, "parseVal not found"
	}
	par := soleParam(c, fd)
	if par == nil {
		return nil, "parseVal does not take exactly one operand"
	}
	x := c.NewSX()
	delete(x.NoInline, "parseVal")
	x.budget = 200000
	cps, why := c.typeCasePaths(fd, x, par)
	if why != "" {
		return nil, "body outside the path vocabulary: " + why
	}
	a := c.E3()
	var out []pvArm
	seen := map[string]bool{}
	for _, cp := range cps {
		if cp.None {
			continue
		}
		name := "nil"
		if !cp.IsNil {
			name = shortType(cp.T)
		}
		p := cp.Path
		arm := pvArm{Name: name, T: cp.T, Pos: posOfNode(p.Node)}
		arm.Container = !cp.IsNil && c.Inv().ContByIface(cp.T) != nil
		if p.End == "return" && len(p.Vals) == 1 {
			res := p.Vals[0]
			if sameTerm(res, cp.Assert) || sameTerm(res, TProj{cp.Assert, 0}) || isParamTerm(res, par) {
				arm.Operand = len(p.Effects()) == 0
			}
			switch r := res.(type) {
			case TCall:
				if r.Fun != nil && r.Fun.Pkg() == c.Types {
					if fn := a.ByObj(r.Fun); fn != nil && a.sum[fn] != nil && len(a.sum[fn].RetEach) > 0 {
						arm.Fresh = true
						for _, o := range a.sum[fn].RetEach {
							if o&oROOTS != oFRESH {
								arm.Fresh = false
							}
						}
					}
				}
			case TAddr:
				if lit, ok := r.X.(TLit); ok && lit.Fresh != 0 {
					arm.Fresh = true
				}
			case TBuiltin:
				arm.Fresh = r.Name == "new"
			}
		}
		if seen[name] {
			// the same case reached on a second path: every path must agree
			for i := range out {
				if out[i].Name == name {
					out[i].Operand = out[i].Operand && arm.Operand
					out[i].Fresh = out[i].Fresh && arm.Fresh
				}
			}
			continue
		}
		seen[name] = true
		out = append(out, arm)
	}
	return out, ""
}

func c19R4(c *Ctx) {
	n := 0
	fd := c.NeedDecl("C19.R4", "parseVal")
	if fd == nil {
		return
	}
	arms, why := parseValArms(c)
	if why != "" {
		c.Ob("C19.R4", "parseVal", fd.Pos()).Undecided("%s", why)
		return
	}
	for _, arm := range arms {
		if !arm.Container {
			continue
		}
		n++
		c.Ob("C19.R4", "parseVal/case "+arm.Name, arm.Pos).Check(arm.Operand, "returns the operand itself (the stored field IS the value handed in, outer identity kept)", "the "+arm.Name+" arm of parseVal does not return its operand unchanged")
	}
	c.R.Floor("C19.R4", n, 2)
}

func findTypeSwitch(body *ast.BlockStmt) *ast.TypeSwitchStmt {
	var ts *ast.TypeSwitchStmt
	inspectNoLit(body, func(n ast.Node) bool {
		if x, ok := n.(*ast.TypeSwitchStmt); ok && ts == nil {
			ts = x
		}
		return true
	})
	return ts
}

// typeSwitchVar returns the identifier name bound by `switch v := x.(type)`, "" if none.
func typeSwitchVar(c *Ctx, ts *ast.TypeSwitchStmt) string {
	if as, ok := ts.Assign.(*ast.AssignStmt); ok && len(as.Lhs) == 1 {
		if id, ok := as.Lhs[0].(*ast.Ident); ok {
			return id.Name
		}
	}
	return ""
}

// isSwitchVar: e is the implicit per-clause variable of the type switch.
func isSwitchVar(c *Ctx, e ast.Expr, name string, cc *ast.CaseClause) bool {
	id, ok := unparen(e).(*ast.Ident)
	if !ok || name == "" || id.Name != name {
		return false
	}
	return c.Info.Uses[id] == c.Info.Implicits[cc]
}

// typeSwitchOperand returns x of `switch v := x.(type)`.
func typeSwitchOperand(ts *ast.TypeSwitchStmt) ast.Expr {
	var e ast.Expr
	switch a := ts.Assign.(type) {
	case *ast.AssignStmt:
		e = a.Rhs[0]
	case *ast.ExprStmt:
		e = a.X
	}
	if ta, ok := unparen(e).(*ast.TypeAssertExpr); ok {
		return ta.X
	}
	return nil
}

func c19R5(c *Ctx) {
	a := c.E3()
	n := 0
	for _, fn := range a.fns {
		if fn.Signature.Recv() == nil {
			continue
		}
		var walk func(f *ssa.Function)
		walk = func(f *ssa.Function) {
			for _, b := range f.Blocks {
				for _, in := range b.Instrs {
					ci, ok := in.(ssa.CallInstruction)
					if !ok {
						continue
					}
					cc := ci.Common()
					what := ""
					var vals []ssa.Value
					if bi, ok := cc.Value.(*ssa.Builtin); ok && bi.Name() == "append" && len(cc.Args) == 2 && !a.isSpine(cc.Args[0].Type()) {
						what, vals = "append to a typed slice", cc.Args[1:]
					} else if !cc.IsInvoke() && cc.StaticCallee() == nil {
						if _, isB := cc.Value.(*ssa.Builtin); !isB {
							what, vals = "callback argument", cc.Args
						}
					} else {
						// Add/Set on a fresh result container
						for _, cal := range a.Callees(cc) {
							if s := a.sum[cal]; s != nil && s.MutRecv && a.inPkg(cal) {
								args := callArgs(cc)
								if len(args) > 0 && a.get(args[0])&oROOTS == oFRESH {
									what, vals = "value stored into a result container", args[1:]
								}
							}
						}
					}
					if what == "" {
						continue
					}
					for _, v := range vals {
						o := a.get(v) | a.cell[a.cellOf(v)]
						if sl, ok := v.(*ssa.Slice); ok { // variadic pack
							o |= a.cell[a.cellOf(sl.X)]
						}
						if !(a.isContainerish(v.Type()) || types.IsInterface(v.Type()) || isIfaceSlice(v.Type())) {
							continue
						}
						if a.isSpine(v.Type()) && what == "value stored into a result container" {
							continue // a spine handed to a helper of the spine type (pushAll(ego.val)): what is stored are its elements
						}
						n++
						ob := c.Ob("C19.R5", a.FuncName(fn)+"/"+what+"@"+a.FuncName(f)+"#"+itoa(indexOfInstr(f, in)), in.Pos())
						if o&oBARE != 0 || (o&oRECV != 0 && o&oVIAEGO == 0) {
							ob.Fail("%s has origin %s: the method's own (embedded) receiver is handed out instead of a stored element", what, o)
						} else {
							ob.Ok("%s has origin %s (stored element, its getVal(), ego or user value)", what, o)
						}
					}
				}
			}
			for _, an := range f.AnonFuncs {
				walk(an)
			}
		}
		walk(fn)
	}
	c.R.Floor("C19.R5", n, 30)
}

// c19R6: type tests applied to values loaded from a spine. A registered derived value (a user struct embedding List/Object) is
// stored as itself; a test for *list/*object fails for it, so code that decides "is this element a container" that way treats
// derived containers as scalars (replaces them in SetTF, shares them in copy, …).
func c19R6(c *Ctx) {
	a := c.E3()
	n := 0
	for _, fn := range a.fns {
		var walk func(f *ssa.Function)
		walk = func(f *ssa.Function) {
			k := 0
			for _, b := range f.Blocks {
				for _, in := range b.Instrs {
					ta, ok := in.(*ssa.TypeAssert)
					if !ok {
						continue
					}
					k++
					o := a.get(ta.X)
					if o&oELEM == 0 {
						// a parameter of an unexported helper (typeOf(f field)): what its static call sites hand in
						if par, isPar := ta.X.(*ssa.Parameter); isPar && f.Parent() == nil && f.Object() != nil && !f.Object().Exported() {
							idx := -1
							for i, p := range f.Params {
								if p == par {
									idx = i
								}
							}
							for _, g := range a.fns {
								var scan func(h *ssa.Function)
								scan = func(h *ssa.Function) {
									for _, hb := range h.Blocks {
										for _, hin := range hb.Instrs {
											if ci, ok := hin.(ssa.CallInstruction); ok && ci.Common().StaticCallee() == f && !ci.Common().IsInvoke() {
												args := ci.Common().Args
												if idx >= 0 && idx < len(args) && a.get(args[idx])&oELEM != 0 {
													o |= oELEM
												}
											}
										}
									}
									for _, an := range h.AnonFuncs {
										scan(an)
									}
								}
								scan(g)
							}
						}
					}
					if o&oELEM == 0 {
						continue
					}
					n++
					if !a.isContainerPtr(ta.AssertedType) {
						continue
					}
					if fd, ok := f.Syntax().(*ast.FuncDecl); ok && c.armsRedundant(fd) {
						c.Ob("C19.R6", "element-type-test/"+a.FuncName(f)+"#"+itoa(k), ta.Pos()).Ok("the arm for %s does exactly what the interface call of the default arm does for that type (default specialised to the type and compared path for path): a derived container takes the default and is treated the same", shortType(ta.AssertedType))
						continue
					}
					c.Ob("C19.R6", "element-type-test/"+a.FuncName(f)+"#"+itoa(k), ta.Pos()).Fail("a stored element is tested for the concrete type %s: a derived container (registered outer value) is not one, so it is treated as a non-container here", shortType(ta.AssertedType))
				}
			}
			for _, an := range f.AnonFuncs {
				walk(an)
			}
		}
		walk(fn)
	}
	ob := c.Ob("C19.R6", "element-type-tests", token.NoPos)
	ob.Ok("%d type tests on stored elements examined; none asks for *list or *object", n)
	c.R.Floor("C19.R6", n, 20)
}

func isIfaceSlice(t types.Type) bool {
	sl, ok := t.Underlying().(*types.Slice)
	return ok && types.IsInterface(sl.Elem())
}

// indexOfInstr gives a position-independent ordinal of a call instruction among the calls of f.
func indexOfInstr(f *ssa.Function, target ssa.Instruction) int {
	k := 0
	for _, b := range f.Blocks {
		for _, in := range b.Instrs {
			if _, ok := in.(ssa.CallInstruction); ok {
				k++
				if in == target {
					return k
				}
			}
		}
	}
	return 0
}

// initOnEveryExit: the registration call lies in the function that allocates the container and its block dominates every returning
// block reachable from the allocation — no path hands the container out unregistered (Ego() == nil).
func initOnEveryExit(al *ssa.Alloc, call ssa.Instruction) bool {
	f := al.Parent()
	if call.Parent() != f {
		return false
	}
	seen := map[*ssa.BasicBlock]bool{}
	var stack []*ssa.BasicBlock
	stack = append(stack, al.Block())
	for len(stack) > 0 {
		b := stack[len(stack)-1]
		stack = stack[:len(stack)-1]
		if seen[b] {
			continue
		}
		seen[b] = true
		if b == call.Block() {
			continue // everything beyond passes through the registration
		}
		if len(b.Instrs) > 0 {
			if _, isRet := b.Instrs[len(b.Instrs)-1].(*ssa.Return); isRet {
				return false // a return reached from the allocation without passing the registration
			}
		}
		stack = append(stack, b.Succs...)
	}
	return true
}
