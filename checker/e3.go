package main

// E3 — origin / write-effect / ownership analysis over go/ssa.
// Flow-insensitive per SSA value, intraprocedural with fix-point function
// summaries. Every transfer function is monotone (bit sets only grow) and
// functions are processed in sorted order, so the result is deterministic.

import (
	"go/token"
	"go/types"
	"sort"
	"strings"

	"golang.org/x/tools/go/ssa"
)

type O uint32

const (
	oRECV O = 1 << iota
	oP1
	oP2
	oP3
	oFRESH
	oELEM
	oUSER
	oSCALAR
	oVIAEGO // reached through Ego()/ptr or a fluent callee
	oBARE   // the receiver parameter itself
)

const oROOTS = oRECV | oP1 | oP2 | oP3 | oFRESH | oELEM | oUSER

func (o O) String() string {
	var s []string
	for i, n := range []string{"RECV", "P1", "P2", "P3", "FRESH", "ELEM", "USER", "SCALAR", "viaEgo", "bare"} {
		if o&(1<<i) != 0 {
			s = append(s, n)
		}
	}
	if len(s) == 0 {
		return "-"
	}
	return strings.Join(s, "|")
}

type Effect struct {
	Pos    token.Pos
	Kind   string // store.val store.ptr store.struct store-elem map-update delete append-into copy-into sort call:<name> store-global
	Target O
	Value  O
	Fn     *ssa.Function // innermost function containing the instruction
	Instr  ssa.Instruction
}

type Summary struct {
	MutRecv  bool
	MutParam [4]bool
	Ret      O
	RetEach  []O
	RetPos   []token.Pos
	MayPanic bool
}

type effKey struct {
	root *ssa.Function
	ins  ssa.Instruction
	kind string
}

type E3 struct {
	c       *Ctx
	prog    *ssa.Program
	pkg     *ssa.Package
	fns     []*ssa.Function // top-level functions and methods, sorted
	sum     map[*ssa.Function]*Summary
	org     map[ssa.Value]O
	cell    map[ssa.Value]O
	effIdx  map[effKey]*Effect
	eff     map[*ssa.Function][]*Effect
	bind    map[*ssa.FreeVar]ssa.Value
	methods map[string][]*ssa.Function // method name -> in-package implementations (sorted)
	changed bool
	Rounds  int
}

func (c *Ctx) E3() *E3 {
	if c.e3 != nil {
		return c.e3
	}
	c.e3 = newE3(c, false)
	return c.e3
}

func newE3(c *Ctx, reverse bool) *E3 {
	spkg := c.SSA()
	a := &E3{c: c, prog: c.prog, pkg: spkg, sum: map[*ssa.Function]*Summary{}, org: map[ssa.Value]O{}, cell: map[ssa.Value]O{},
		effIdx: map[effKey]*Effect{}, eff: map[*ssa.Function][]*Effect{}, bind: map[*ssa.FreeVar]ssa.Value{}, methods: map[string][]*ssa.Function{}}
	seen := map[*ssa.Function]bool{}
	var names []string
	for n := range spkg.Members {
		names = append(names, n)
	}
	sort.Strings(names)
	for _, n := range names {
		switch x := spkg.Members[n].(type) {
		case *ssa.Function:
			if x.Synthetic == "" && !seen[x] {
				seen[x] = true
				a.fns = append(a.fns, x)
			}
		case *ssa.Type:
			for _, t := range []types.Type{x.Type(), types.NewPointer(x.Type())} {
				ms := a.prog.MethodSets.MethodSet(t)
				for i := 0; i < ms.Len(); i++ {
					f := a.prog.MethodValue(ms.At(i))
					if f != nil && f.Synthetic == "" && f.Pkg == spkg && !seen[f] {
						seen[f] = true
						a.fns = append(a.fns, f)
						a.methods[f.Name()] = append(a.methods[f.Name()], f)
					}
					if f != nil && f.Synthetic != "" {
						// a wrapper for a method promoted from an embedded struct: the method it forwards to, when that is an instance of
						// a generic method of this package (`(*self[List]).Ego`), is a function of the package reached by interface calls
						for _, b := range f.Blocks {
							for _, in := range b.Instrs {
								ci, ok := in.(ssa.CallInstruction)
								if !ok {
									continue
								}
								cal := ci.Common().StaticCallee()
								if cal != nil && cal.Origin() != nil && cal.Origin().Pkg == spkg && cal.Parent() == nil && !seen[cal] && cal.Signature.Recv() != nil {
									seen[cal] = true
									a.fns = append(a.fns, cal)
									mn := cal.Name()
									if k := strings.Index(mn, "["); k > 0 {
										mn = mn[:k]
									}
									a.methods[mn] = append(a.methods[mn], cal)
								}
							}
						}
					}
				}
			}
		}
	}
	// instances of the package's generic helpers are functions of the package too (go/ssa gives them no package); the
	// uninstantiated bodies are never called and are left out
	for i := 0; i < len(a.fns); i++ {
		var all []*ssa.Function
		all = append(all, a.fns[i])
		for j := 0; j < len(all); j++ {
			all = append(all, all[j].AnonFuncs...)
		}
		for _, f := range all {
			for _, b := range f.Blocks {
				for _, in := range b.Instrs {
					if ci, ok := in.(ssa.CallInstruction); ok {
						if cal := ci.Common().StaticCallee(); cal != nil && cal.Origin() != nil && cal.Origin().Pkg == spkg && cal.Parent() == nil && !seen[cal] {
							seen[cal] = true
							a.fns = append(a.fns, cal)
							if cal.Signature.Recv() != nil {
								// a method of an instantiated generic type (promoted into a container from its embedded base)
								mn := cal.Name()
								if k := strings.Index(mn, "["); k > 0 {
									mn = mn[:k]
								}
								a.methods[mn] = append(a.methods[mn], cal)
							}
						}
					}
				}
			}
		}
	}
	{
		var keep []*ssa.Function
		for _, f := range a.fns {
			if f.TypeParams().Len() > 0 && len(f.TypeArgs()) == 0 {
				continue
			}
			keep = append(keep, f)
		}
		a.fns = keep
	}
	sort.Slice(a.fns, func(i, j int) bool { return a.fns[i].String() < a.fns[j].String() })
	if reverse {
		for i, j := 0, len(a.fns)-1; i < j; i, j = i+1, j-1 {
			a.fns[i], a.fns[j] = a.fns[j], a.fns[i]
		}
	}
	for _, f := range a.fns {
		a.sum[f] = &Summary{}
	}
	for {
		a.changed = false
		for _, f := range a.fns {
			a.analyze(f)
			a.summarize(f)
		}
		a.Rounds++
		if !a.changed || a.Rounds > 60 {
			break
		}
	}
	for _, es := range a.eff {
		sort.SliceStable(es, func(i, j int) bool { return es[i].Pos < es[j].Pos })
	}
	return a
}

func (a *E3) isContainerPtr(t types.Type) bool {
	if p, ok := t.(*types.Pointer); ok {
		if n, ok := p.Elem().(*types.Named); ok {
			return a.c.Inv().ContOf(n) != nil
		}
	}
	return false
}

// isEgoHolderPtr: a pointer to a container, or to the base struct embedded in one that holds its registered ego.
func (a *E3) isEgoHolderPtr(t types.Type) bool {
	if a.isContainerPtr(t) {
		return true
	}
	if p, ok := t.(*types.Pointer); ok {
		for _, ct := range a.c.Inv().Conts {
			if ct.Base != nil && types.Identical(p.Elem(), ct.Base.Type()) {
				return true
			}
		}
	}
	return false
}

// isFieldIface: the field interface or one of the container interfaces (List, Object).
func (a *E3) isFieldIface(t types.Type) bool {
	n, ok := t.(*types.Named)
	if !ok || n.Obj().Pkg() != a.pkg.Pkg {
		return false
	}
	_, ok = n.Underlying().(*types.Interface)
	return ok
}

func (a *E3) isContainerish(t types.Type) bool {
	return a.isContainerPtr(t) || a.isFieldIface(t)
}

func (a *E3) isSpine(t types.Type) bool {
	for _, ct := range a.c.Inv().Conts {
		if types.Identical(t, ct.Spine.Type()) {
			return true
		}
	}
	return false
}

func (a *E3) get(v ssa.Value) O {
	switch x := v.(type) {
	case *ssa.Const:
		return oSCALAR
	case *ssa.FreeVar:
		if b, ok := a.bind[x]; ok {
			return a.get(b)
		}
		return oUSER
	case *ssa.Global:
		return oUSER
	case *ssa.Function, *ssa.Builtin:
		return oSCALAR
	}
	return a.org[v]
}

func (a *E3) set(v ssa.Value, o O) {
	if a.org[v]|o != a.org[v] {
		a.org[v] |= o
		a.changed = true
	}
}

func (a *E3) cellOf(v ssa.Value) ssa.Value {
	for {
		switch x := v.(type) {
		case *ssa.FreeVar:
			if b, ok := a.bind[x]; ok {
				v = b
				continue
			}
			return v
		case *ssa.IndexAddr:
			v = x.X
			continue
		case *ssa.Slice:
			v = x.X
			continue
		}
		return v
	}
}

// argSliceRoot: v is (a re-slice of, a loop-carried copy of, the result of appending to) a slice parameter of a top-level function:
// that parameter — its backing array belongs to the caller.
func (a *E3) argSliceRoot(v ssa.Value) *ssa.Parameter {
	seen := map[ssa.Value]bool{}
	var rec func(v ssa.Value) *ssa.Parameter
	rec = func(v ssa.Value) *ssa.Parameter {
		if v == nil || seen[v] {
			return nil
		}
		seen[v] = true
		switch x := v.(type) {
		case *ssa.Parameter:
			if x.Parent() != nil && x.Parent().Parent() == nil {
				if _, isSl := x.Type().Underlying().(*types.Slice); isSl {
					return x
				}
			}
		case *ssa.Slice:
			return rec(x.X)
		case *ssa.Phi:
			for _, e := range x.Edges {
				if p := rec(e); p != nil {
					return p
				}
			}
		case *ssa.Call:
			if b, ok := x.Call.Value.(*ssa.Builtin); ok && b.Name() == "append" && len(x.Call.Args) > 0 {
				return rec(x.Call.Args[0])
			}
		case *ssa.FreeVar:
			if b, ok := a.bind[x]; ok {
				return rec(b)
			}
		}
		return nil
	}
	return rec(v)
}

func (a *E3) addCell(c ssa.Value, o O) {
	if a.cell[c]|o != a.cell[c] {
		a.cell[c] |= o
		a.changed = true
	}
}

func rootOf(fn *ssa.Function) *ssa.Function {
	for fn.Parent() != nil {
		fn = fn.Parent()
	}
	return fn
}

func (a *E3) effect(fn *ssa.Function, ins ssa.Instruction, kind string, target, value O) {
	root := rootOf(fn)
	k := effKey{root, ins, kind}
	if e, ok := a.effIdx[k]; ok {
		if e.Target|target != e.Target || e.Value|value != e.Value {
			e.Target |= target
			e.Value |= value
			a.changed = true
		}
		return
	}
	e := &Effect{Pos: ins.Pos(), Kind: kind, Target: target, Value: value, Fn: fn, Instr: ins}
	a.effIdx[k] = e
	a.eff[root] = append(a.eff[root], e)
	a.changed = true
}

// paramBitOf gives the summary bit of a top-level function parameter (receiver = RECV).
func (a *E3) paramBitOf(par *ssa.Parameter) O {
	fn := par.Parent()
	for i, q := range fn.Params {
		if q == par {
			if fn.Signature.Recv() != nil {
				if i == 0 {
					return oRECV
				}
				return paramBit(i)
			}
			return paramBit(i + 1)
		}
	}
	return oUSER
}

func paramBit(i int) O {
	switch i {
	case 1:
		return oP1
	case 2:
		return oP2
	case 3:
		return oP3
	}
	return oUSER
}

// subst translates a callee-relative origin into caller terms.
func (a *E3) subst(o O, args []ssa.Value) O {
	var r O
	if o&oRECV != 0 && len(args) > 0 && args[0] != nil {
		r |= a.get(args[0]) &^ oBARE
		if o&oVIAEGO != 0 {
			r |= oVIAEGO
		}
		if o&oBARE != 0 {
			r |= a.get(args[0]) & oBARE
		}
	}
	for i, b := range []O{oP1, oP2, oP3} {
		if o&b != 0 && len(args) > i+1 {
			r |= a.get(args[i+1]) &^ (oBARE | oVIAEGO)
		}
	}
	r |= o & (oFRESH | oELEM | oUSER | oSCALAR)
	return r
}

// Callees resolves a call: static callee, or for an interface invoke the
// in-package implementations of the method on types implementing the interface.
func (a *E3) Callees(c *ssa.CallCommon) []*ssa.Function {
	if c.IsInvoke() {
		var out []*ssa.Function
		it, _ := c.Value.Type().Underlying().(*types.Interface)
		for _, f := range a.methods[c.Method.Name()] {
			recv := f.Signature.Recv()
			if recv == nil {
				continue
			}
			if it == nil || types.Implements(recv.Type(), it) {
				out = append(out, f)
				continue
			}
			// a method promoted from the base struct embedded in a container that implements the interface: what the call dispatches to
			if p, ok := recv.Type().(*types.Pointer); ok {
				for _, ct := range a.c.Inv().Conts {
					if ct.Base != nil && types.Identical(p.Elem(), ct.Base.Type()) && types.Implements(types.NewPointer(ct.Named), it) {
						out = append(out, f)
					}
				}
			}
		}
		return out
	}
	if f := c.StaticCallee(); f != nil {
		return []*ssa.Function{f}
	}
	return nil
}

// slotArgs aligns actual arguments with the summary numbering of the callee: slot 0 is the receiver (nil for a plain function).
func slotArgs(callee *ssa.Function, args []ssa.Value) []ssa.Value {
	if callee.Signature.Recv() != nil {
		return args
	}
	return append([]ssa.Value{nil}, args...)
}

// inPkg: a function of the analysed package, a closure in one, or an instance of one of its generic functions.
func (a *E3) inPkg(f *ssa.Function) bool {
	r := rootOf(f)
	if r.Pkg == a.pkg {
		return true
	}
	return r.Origin() != nil && r.Origin().Pkg == a.pkg
}

func callArgs(c *ssa.CallCommon) []ssa.Value {
	if c.IsInvoke() {
		return append([]ssa.Value{c.Value}, c.Args...)
	}
	return c.Args
}

func (a *E3) doCall(fn *ssa.Function, instr ssa.Instruction, c *ssa.CallCommon, res ssa.Value) {
	args := callArgs(c)
	if b, ok := c.Value.(*ssa.Builtin); ok && !c.IsInvoke() {
		switch b.Name() {
		case "append":
			t := a.get(c.Args[0]) & oROOTS
			if a.isSpine(c.Args[0].Type()) {
				if len(c.Args) > 1 {
					if k, isC := c.Args[1].(*ssa.Const); !(isC && k.IsNil()) {
						a.effect(fn, instr, "append-into", t, a.get(c.Args[1]))
					}
				}
				if res != nil {
					a.set(res, t|oFRESH)
				}
			} else if res != nil {
				// appending to a (re-slice of a) slice the caller handed in — `missing := keys[:0]; missing = append(missing, k)` — writes
				// into the caller's backing array whenever its capacity allows
				if par := a.argSliceRoot(c.Args[0]); par != nil {
					a.effect(fn, instr, "append-arg", a.paramBitOf(par), a.get(c.Args[1]))
				}
				// the result is the first operand's storage or a fresh array; the appended elements are copied (their origins go to the cell)
				a.set(res, a.get(c.Args[0])|oFRESH)
				a.addCell(a.cellOf(res), a.cell[a.cellOf(c.Args[0])]|a.get(c.Args[1])|a.cell[a.cellOf(c.Args[1])])
			}
		case "copy":
			if a.isSpine(c.Args[0].Type()) {
				a.effect(fn, instr, "copy-into", a.get(c.Args[0])&oROOTS, a.get(c.Args[1]))
			} else if par := a.argSliceRoot(c.Args[0]); par != nil {
				a.effect(fn, instr, "copy-arg", a.paramBitOf(par), a.get(c.Args[1])) // overwrites a slice owned by the caller
			}
		case "delete":
			if a.isSpine(c.Args[0].Type()) {
				a.effect(fn, instr, "delete", a.get(c.Args[0])&oROOTS, 0)
			}
		case "clear":
			if a.isSpine(c.Args[0].Type()) {
				a.effect(fn, instr, "clear", a.get(c.Args[0])&oROOTS, 0)
			}
		}
		if res != nil && b.Name() != "append" && !a.isSpine(res.Type()) && !a.isContainerish(res.Type()) {
			a.set(res, oSCALAR)
		}
		return
	}
	cs := a.Callees(c)
	if len(cs) == 0 {
		// call through a function value (user callback): no library-visible effect
		if res != nil {
			a.set(res, oUSER)
		}
		return
	}
	for _, callee := range cs {
		if !a.inPkg(callee) {
			// external: functions of sort/slices that reorder their argument
			if callee.Pkg != nil && (callee.Pkg.Pkg.Path() == "sort" || callee.Pkg.Pkg.Path() == "slices") && len(args) > 0 {
				for _, ar := range args {
					if a.isSpine(ar.Type()) {
						a.effect(fn, instr, "sort", a.get(ar)&oROOTS, 0)
					} else if par, ok := a.cellOf(ar).(*ssa.Parameter); ok && par.Parent().Parent() == nil {
						if _, isSl := par.Type().Underlying().(*types.Slice); isSl && !strings.HasPrefix(callee.Name(), "Search") && !strings.HasSuffix(callee.Name(), "AreSorted") && !strings.HasPrefix(callee.Name(), "IsSorted") && !strings.HasPrefix(callee.Name(), "Contains") && !strings.HasPrefix(callee.Name(), "Index") {
							a.effect(fn, instr, "reorder-arg", a.paramBitOf(par), 0) // reorders a slice owned by the caller
						}
					}
				}
			}
			if res != nil {
				if a.isContainerish(res.Type()) || a.isSpine(res.Type()) {
					// external function returning one of our containers/spines: conservatively aliases its spine arguments
					var o O = oUSER
					for _, ar := range args {
						if a.isSpine(ar.Type()) || a.isContainerish(ar.Type()) {
							o |= a.get(ar) & oROOTS
						}
					}
					a.set(res, o)
				} else {
					a.set(res, oSCALAR)
				}
			}
			continue
		}
		s := a.sum[callee]
		if s == nil {
			// closure called directly: effects were attributed to its creator
			if res != nil {
				var o O
				for _, b := range callee.Blocks {
					if r, ok := b.Instrs[len(b.Instrs)-1].(*ssa.Return); ok && len(r.Results) > 0 {
						o |= a.get(r.Results[0])
					}
				}
				if _, basic := res.Type().Underlying().(*types.Basic); basic {
					o |= oSCALAR
				}
				a.set(res, o)
			}
			continue
		}
		// summaries number the receiver slot 0 and the parameters 1..3, also for plain functions
		sargs := slotArgs(callee, args)
		if s.MutRecv && len(sargs) > 0 && sargs[0] != nil {
			a.effect(fn, instr, "call:"+callee.Name(), a.get(sargs[0])&oROOTS, 0)
		}
		for i := 1; i < 4 && i < len(sargs); i++ {
			if s.MutParam[i] {
				a.effect(fn, instr, "call:"+callee.Name()+"#arg", a.get(sargs[i])&oROOTS, 0)
			}
		}
		if res != nil {
			a.set(res, a.subst(s.Ret, sargs))
		}
	}
}

func (a *E3) analyze(fn *ssa.Function) {
	isMethod := fn.Signature.Recv() != nil
	for i, p := range fn.Params {
		switch {
		case isMethod && i == 0:
			a.set(p, oRECV|oBARE)
		case fn.Parent() != nil:
			// parameters of function literals: values handed in by whoever calls the literal
			if bt, ok := p.Type().Underlying().(*types.Basic); ok && bt.Kind() != types.UnsafePointer {
				a.set(p, oSCALAR)
			} else if o, ok := a.litParamOrigin(fn, i); ok {
				a.set(p, o) // the literal is only ever invoked by a private helper it is handed to: what that helper passes
			} else {
				a.set(p, oUSER)
			}
		case a.isContainerish(p.Type()) || a.isSpine(p.Type()) || types.IsInterface(p.Type()):
			idx := i
			if !isMethod {
				idx = i + 1
			}
			a.set(p, paramBit(idx))
		default:
			if bt, ok := p.Type().Underlying().(*types.Basic); ok && bt.Kind() != types.UnsafePointer {
				a.set(p, oSCALAR)
			} else if sl, ok := p.Type().Underlying().(*types.Slice); ok && types.IsInterface(sl.Elem()) {
				idx := i
				if !isMethod {
					idx = i + 1
				}
				a.set(p, paramBit(idx))
				a.addCell(p, paramBit(idx))
			} else if _, ok := p.Type().Underlying().(*types.Slice); ok {
				// any other slice handed in: its storage is the caller's argument (private helpers building typed slices)
				idx := i
				if !isMethod {
					idx = i + 1
				}
				a.set(p, paramBit(idx))
			} else {
				a.set(p, oUSER)
			}
		}
	}
	for _, b := range fn.Blocks {
		for _, instr := range b.Instrs {
			a.transfer(fn, instr)
		}
	}
	for _, an := range fn.AnonFuncs {
		a.analyze(an)
	}
}

// litParamOrigin: the origin of parameter i of the function literal lit when every use of the literal is "argument of a statically
// called, unexported function of this package whose corresponding parameter is used for nothing but being called" (a private
// higher-order helper such as buildList(spine, fill)). The origins the helper passes at those calls are translated into the
// creator's context through the helper's call site. ok=false: the literal may be called by anybody (a user callback, a stored value).
func (a *E3) litParamOrigin(lit *ssa.Function, i int) (O, bool) {
	parent := lit.Parent()
	if parent == nil {
		return 0, false
	}
	var out O
	found := false
	for _, b := range parent.Blocks {
		for _, in := range b.Instrs {
			var mc ssa.Value
			switch x := in.(type) {
			case *ssa.MakeClosure:
				if x.Fn == lit {
					mc = x
				}
			}
			if mc == nil {
				continue
			}
			refs := mc.Referrers()
			if refs == nil || len(*refs) == 0 {
				return 0, false
			}
			for _, r := range *refs {
				ci, isCall := r.(ssa.CallInstruction)
				if !isCall {
					return 0, false
				}
				cc := ci.Common()
				h := cc.StaticCallee()
				if h == nil || !a.inPkg(h) || h.Object() == nil || h.Object().Exported() || cc.IsInvoke() || cc.Value == mc {
					return 0, false
				}
				args := callArgs(cc)
				for j, ar := range args {
					if ar != mc {
						continue
					}
					if j >= len(h.Params) {
						return 0, false
					}
					pj := h.Params[j]
					prefs := pj.Referrers()
					if prefs == nil {
						return 0, false
					}
					for _, pr := range *prefs {
						pc, isCall := pr.(ssa.CallInstruction)
						if !isCall || pc.Common().Value != pj || pc.Common().IsInvoke() {
							return 0, false // stored, passed on or compared: other callers are possible
						}
						if i >= len(pc.Common().Args) {
							return 0, false
						}
						found = true
						out |= a.subst(a.get(pc.Common().Args[i]), slotArgs(h, args))
					}
				}
			}
		}
	}
	// a function literal without free variables is not a MakeClosure but the function value itself
	if !found {
		for _, b := range parent.Blocks {
			for _, in := range b.Instrs {
				ci, isCall := in.(ssa.CallInstruction)
				if !isCall {
					continue
				}
				cc := ci.Common()
				for j, ar := range callArgs(cc) {
					if ar != ssa.Value(lit) {
						continue
					}
					h := cc.StaticCallee()
					if h == nil || !a.inPkg(h) || h.Object() == nil || h.Object().Exported() || cc.IsInvoke() || j >= len(h.Params) {
						return 0, false
					}
					pj := h.Params[j]
					prefs := pj.Referrers()
					if prefs == nil {
						return 0, false
					}
					for _, pr := range *prefs {
						pc, isCall := pr.(ssa.CallInstruction)
						if !isCall || pc.Common().Value != pj || pc.Common().IsInvoke() || i >= len(pc.Common().Args) {
							return 0, false
						}
						found = true
						out |= a.subst(a.get(pc.Common().Args[i]), slotArgs(h, callArgs(cc)))
					}
				}
			}
		}
		if found {
			// every other use of the bare function value must be such an argument too
			for _, b := range parent.Blocks {
				for _, in := range b.Instrs {
					for _, op := range in.Operands(nil) {
						if op == nil || *op != ssa.Value(lit) {
							continue
						}
						ci, isCall := in.(ssa.CallInstruction)
						if !isCall || ci.Common().Value == ssa.Value(lit) {
							return 0, false
						}
					}
				}
			}
		}
	}
	return out, found
}

// isSpinePtr: a pointer to a value of a container's spine type (*fields with `val fields`).
func (a *E3) isSpinePtr(t types.Type) bool {
	p, ok := t.Underlying().(*types.Pointer)
	if !ok {
		return false
	}
	return a.isSpine(p.Elem())
}

func (a *E3) structField(addrX ssa.Value, idx int) *types.Var {
	t := addrX.Type().Underlying()
	if p, ok := t.(*types.Pointer); ok {
		t = p.Elem().Underlying()
	}
	if st, ok := t.(*types.Struct); ok && idx < st.NumFields() {
		return st.Field(idx)
	}
	return nil
}

func (a *E3) transfer(fn *ssa.Function, instr ssa.Instruction) {
	switch x := instr.(type) {
	case *ssa.Alloc:
		a.set(x, oFRESH) // fresh local or heap memory (container structs, literal backing arrays, variadic packs, cells)
	case *ssa.MakeSlice:
		a.set(x, oFRESH)
	case *ssa.MakeMap:
		a.set(x, oFRESH)
	case *ssa.FieldAddr:
		a.set(x, a.get(x.X)&^oBARE)
	case *ssa.Field:
		a.set(x, a.get(x.X)&^oBARE)
	case *ssa.IndexAddr:
		if a.isSpine(x.X.Type()) {
			a.set(x, a.get(x.X))
		} else {
			a.set(x, oSCALAR)
		}
	case *ssa.Index:
		a.set(x, a.cell[a.cellOf(x.X)]|a.get(x.X))
	case *ssa.Lookup:
		if a.isSpine(x.X.Type()) {
			a.set(x, oELEM)
		} else {
			a.set(x, a.cell[a.cellOf(x.X)]|oSCALAR)
		}
	case *ssa.Range:
		a.set(x, a.get(x.X))
	case *ssa.Next:
		a.set(x, a.get(x.Iter))
	case *ssa.Extract:
		t := x.Tuple
		if nx, ok := t.(*ssa.Next); ok {
			if rg, ok := nx.Iter.(*ssa.Range); ok && a.isSpine(rg.X.Type()) {
				if x.Index == 2 {
					a.set(x, oELEM)
				} else {
					a.set(x, oSCALAR)
				}
				break
			}
			if rg, ok := nx.Iter.(*ssa.Range); ok {
				if x.Index == 2 {
					o := a.cell[a.cellOf(rg.X)] | a.get(rg.X)&^(oBARE|oVIAEGO)
					if _, basic := x.Type().Underlying().(*types.Basic); basic {
						o |= oSCALAR
					}
					a.set(x, o)
				} else {
					a.set(x, oSCALAR)
				}
				break
			}
			a.set(x, oUSER)
			break
		}
		if a.isContainerish(x.Type()) || a.isSpine(x.Type()) || types.IsInterface(x.Type()) {
			a.set(x, a.get(t))
		} else if _, isTA := t.(*ssa.TypeAssert); isTA && x.Index == 0 && !isBasicType(x.Type()) {
			// v, ok := y.([]any): the Go slice / map that was asserted keeps the origin of y
			a.set(x, a.get(t))
		} else {
			a.set(x, oSCALAR)
		}
	case *ssa.UnOp:
		if _, basic := x.Type().Underlying().(*types.Basic); basic && x.Op != token.MUL {
			a.set(x, oSCALAR)
		} else if x.Op == token.MUL { // load
			switch addr := x.X.(type) {
			case *ssa.FieldAddr:
				fld := a.structField(addr.X, addr.Field)
				o := a.get(addr)
				switch {
				case fld != nil && a.isFieldIface(fld.Type()) && a.isEgoHolderPtr(addr.X.Type()):
					a.set(x, o&oROOTS|oVIAEGO) // the registered ego
				case fld != nil && a.isSpine(fld.Type()):
					a.set(x, o&oROOTS) // the spine of that container
				default:
					if _, basic := x.Type().Underlying().(*types.Basic); basic {
						a.set(x, oSCALAR)
					} else {
						a.set(x, o&oROOTS|a.cell[a.cellOf(addr.X)])
					}
				}
			case *ssa.IndexAddr:
				if a.isSpine(addr.X.Type()) {
					a.set(x, oELEM)
				} else {
					o := a.cell[a.cellOf(addr)]
					if _, basic := x.Type().Underlying().(*types.Basic); basic {
						o |= oSCALAR
					} else {
						o |= a.get(addr.X) &^ (oBARE | oVIAEGO)
					}
					a.set(x, o)
				}
			default:
				c := a.cellOf(x.X)
				a.set(x, a.cell[c])
				if _, ok := x.Type().Underlying().(*types.Basic); ok {
					a.set(x, oSCALAR)
				}
				if _, isAlloc := x.X.(*ssa.Alloc); !isAlloc && a.isSpinePtr(x.X.Type()) {
					a.set(x, a.cell[c]|a.get(x.X)&oROOTS) // *s with s = &c.val: the spine of that container
				}
			}
		} else {
			a.set(x, oSCALAR)
		}
	case *ssa.Store:
		v := a.get(x.Val)
		switch addr := x.Addr.(type) {
		case *ssa.FieldAddr:
			fld := a.structField(addr.X, addr.Field)
			if fld != nil && !a.isContainerPtr(addr.X.Type()) && a.isEgoHolderPtr(addr.X.Type()) && a.isFieldIface(fld.Type()) {
				a.effect(fn, x, "store.ptr", a.get(addr)&oROOTS, v) // the ego field in the embedded base struct
			} else if fld != nil && a.isContainerPtr(addr.X.Type()) {
				kind := "store." + fld.Name()
				if a.isSpine(fld.Type()) {
					kind = "store.val"
				} else if a.isFieldIface(fld.Type()) {
					kind = "store.ptr"
				}
				a.effect(fn, x, kind, a.get(addr)&oROOTS, v)
			} else {
				a.addCell(a.cellOf(addr.X), v)
			}
		case *ssa.IndexAddr:
			if a.isSpine(addr.X.Type()) {
				a.effect(fn, x, "store-elem", a.get(addr.X)&oROOTS, v)
			} else {
				a.addCell(a.cellOf(addr), v)
				if par, ok := a.cellOf(addr).(*ssa.Parameter); ok && par.Parent().Parent() == nil {
					if _, isSl := par.Type().Underlying().(*types.Slice); isSl {
						a.effect(fn, x, "store-arg-elem", a.paramBitOf(par), v) // writes into a slice owned by the caller
					}
				}
			}
		case *ssa.Global:
			a.effect(fn, x, "store-global", oUSER, v)
		default:
			if _, isAlloc := x.Addr.(*ssa.Alloc); !isAlloc && a.isContainerPtr(x.Addr.Type()) {
				// *c = <struct>: spine and registered ego of an existing container overwritten at once
				a.effect(fn, x, "store.struct", a.get(x.Addr)&oROOTS, v)
			}
			if _, isAlloc := x.Addr.(*ssa.Alloc); !isAlloc && a.isSpinePtr(x.Addr.Type()) {
				// *s = <spine> through a pointer to a container's spine (a method of a named spine type with a pointer receiver, called
				// on &c.val): the spine of whatever container the pointer came from is replaced
				a.effect(fn, x, "store.val", a.get(x.Addr)&oROOTS, v)
			}
			a.addCell(a.cellOf(x.Addr), v)
		}
	case *ssa.MapUpdate:
		if a.isSpine(x.Map.Type()) {
			a.effect(fn, x, "map-update", a.get(x.Map)&oROOTS, a.get(x.Value))
		} else {
			a.addCell(a.cellOf(x.Map), a.get(x.Value))
		}
	case *ssa.Slice:
		a.set(x, a.get(x.X))
	case *ssa.Phi:
		var o O
		for _, e := range x.Edges {
			o |= a.get(e)
		}
		a.set(x, o)
	case *ssa.MakeInterface:
		o := a.get(x.X)
		if _, basic := x.X.Type().Underlying().(*types.Basic); basic {
			o = oSCALAR
		}
		if !a.isContainerish(x.X.Type()) && !a.isSpine(x.X.Type()) {
			switch x.X.Type().Underlying().(type) {
			case *types.Slice, *types.Map, *types.Pointer:
			default:
				o |= oSCALAR
			}
			o |= a.cell[a.cellOf(x.X)]
		}
		a.set(x, o)
	case *ssa.ChangeInterface:
		a.set(x, a.get(x.X))
	case *ssa.ChangeType:
		a.set(x, a.get(x.X))
	case *ssa.Convert:
		a.set(x, oSCALAR)
	case *ssa.TypeAssert:
		o := a.get(x.X)
		if a.isContainerish(x.AssertedType) || a.isSpine(x.AssertedType) {
			o &^= oSCALAR
		} else if _, ok := x.AssertedType.Underlying().(*types.Basic); ok {
			o = oSCALAR
		} else if !types.IsInterface(x.AssertedType) && o&oRECV != 0 {
			// a value of a concrete type that is neither a container nor a spine is not the receiver (always a container pointer)
			// nor anything inside it: that alternative of the origin is excluded by the assertion
			o = o&^(oRECV|oBARE|oVIAEGO) | oSCALAR
		}
		a.set(x, o)
	case *ssa.BinOp:
		a.set(x, oSCALAR)
	case *ssa.MakeClosure:
		cl := x.Fn.(*ssa.Function)
		for i, fv := range cl.FreeVars {
			a.bind[fv] = x.Bindings[i]
		}
		a.set(x, oSCALAR)
	case *ssa.Call:
		a.doCall(fn, x, &x.Call, x)
	case *ssa.Go:
		a.doCall(fn, x, &x.Call, nil)
	case *ssa.Defer:
		a.doCall(fn, x, &x.Call, nil)
	case *ssa.Panic:
		if s := a.sum[rootOf(fn)]; s != nil && !s.MayPanic {
			s.MayPanic = true
			a.changed = true
		}
	}
}

func (a *E3) summarize(fn *ssa.Function) {
	s := a.sum[fn]
	for _, e := range a.eff[fn] {
		if e.Target&oRECV != 0 && !s.MutRecv {
			s.MutRecv = true
			a.changed = true
		}
		for i, b := range []O{oP1, oP2, oP3} {
			if e.Target&b != 0 && !s.MutParam[i+1] {
				s.MutParam[i+1] = true
				a.changed = true
			}
		}
	}
	var each []O
	var poss []token.Pos
	var ret O
	for _, b := range fn.Blocks {
		if r, ok := b.Instrs[len(b.Instrs)-1].(*ssa.Return); ok && len(r.Results) > 0 {
			o := a.get(r.Results[0])
			each = append(each, o)
			poss = append(poss, r.Pos())
			ret |= o
		}
	}
	if ret != s.Ret {
		s.Ret |= ret
		a.changed = true
	}
	s.RetEach, s.RetPos = each, poss
	if !s.MayPanic {
		var walk func(f *ssa.Function)
		walk = func(f *ssa.Function) {
			for _, b := range f.Blocks {
				for _, in := range b.Instrs {
					if c, ok := in.(ssa.CallInstruction); ok {
						for _, cal := range a.Callees(c.Common()) {
							if cs := a.sum[cal]; cs != nil && cs.MayPanic {
								s.MayPanic = true
							}
						}
					}
				}
			}
			for _, an := range f.AnonFuncs {
				walk(an)
			}
		}
		walk(fn)
		if s.MayPanic {
			a.changed = true
		}
	}
}

// FuncName is a stable short name: "(*list).Insert", "parseVal".
func (a *E3) FuncName(f *ssa.Function) string {
	name := f.String()
	name = strings.ReplaceAll(name, a.pkg.Pkg.Path()+".", "")
	return name
}

// ByName returns the analysed top-level function with that short name.
func (a *E3) ByName(name string) *ssa.Function {
	for _, f := range a.fns {
		if a.FuncName(f) == name {
			return f
		}
	}
	// "(*list).Ego" promoted from the embedded base struct of the container: the instance of the base's method for this container
	for _, ct := range a.c.Inv().Conts {
		prefix := "(*" + ct.Named.Obj().Name() + ")."
		if ct.Base == nil || !strings.HasPrefix(name, prefix) {
			continue
		}
		obj, _, _ := types.LookupFieldOrMethod(types.NewPointer(ct.Named), true, a.c.Types, strings.TrimPrefix(name, prefix))
		m, ok := obj.(*types.Func)
		if !ok {
			continue
		}
		for _, f := range a.fns {
			if f.Signature.Recv() == nil {
				continue
			}
			o, ok := f.Object().(*types.Func)
			if !ok || o.Origin() != m.Origin() {
				continue
			}
			if p, ok := f.Signature.Recv().Type().(*types.Pointer); ok && types.Identical(p.Elem(), ct.Base.Type()) {
				return f
			}
		}
	}
	return nil
}

// ByObj returns the analysed function declared by the types object f (generic functions: their first analysed instance).
func (a *E3) ByObj(f *types.Func) *ssa.Function {
	for _, fn := range a.fns {
		if fn.Object() == f {
			return fn
		}
		if o := fn.Origin(); o != nil && o.Object() == f {
			return fn
		}
	}
	return nil
}

// Digest renders all summaries deterministically (used to compare two fix-point orders).
func (a *E3) Digest() string {
	fns := append([]*ssa.Function(nil), a.fns...)
	sort.Slice(fns, func(i, j int) bool { return fns[i].String() < fns[j].String() })
	var sb strings.Builder
	for _, f := range fns {
		s := a.sum[f]
		var each []string
		for _, o := range s.RetEach {
			each = append(each, o.String())
		}
		sb.WriteString(a.FuncName(f) + " mutRecv=")
		if s.MutRecv {
			sb.WriteString("1")
		} else {
			sb.WriteString("0")
		}
		for i := 1; i < 4; i++ {
			if s.MutParam[i] {
				sb.WriteString(" mutP" + string(rune('0'+i)))
			}
		}
		if s.MayPanic {
			sb.WriteString(" panic")
		}
		sb.WriteString(" ret=[" + strings.Join(each, ";") + "]\n")
		for _, e := range a.eff[f] {
			sb.WriteString("   " + e.Kind + " target=" + e.Target.String() + " value=" + e.Value.String() + " @" + a.c.Pos(e.Pos) + "\n")
		}
	}
	return sb.String()
}

// calleeNames returns the short names of the in-package functions fn (closures included) may call.
func (a *E3) calleeNames(fn *ssa.Function) []string {
	set := map[string]bool{}
	var walk func(f *ssa.Function)
	walk = func(f *ssa.Function) {
		for _, b := range f.Blocks {
			for _, in := range b.Instrs {
				if ci, ok := in.(ssa.CallInstruction); ok {
					for _, cal := range a.Callees(ci.Common()) {
						if a.inPkg(cal) && a.sum[cal] != nil {
							set[a.FuncName(cal)] = true
						}
					}
				}
				// a declared function of the package handed around as a value may be called by whoever receives it
				for _, op := range in.Operands(nil) {
					if op == nil || *op == nil {
						continue
					}
					if g, ok := (*op).(*ssa.Function); ok && g.Parent() == nil && a.inPkg(g) && a.sum[g] != nil {
						set[a.FuncName(g)] = true
					}
				}
			}
		}
		for _, an := range f.AnonFuncs {
			walk(an)
		}
	}
	walk(fn)
	var out []string
	for n := range set {
		out = append(out, n)
	}
	sort.Strings(out)
	return out
}

// isPtrField: the address is that of a container's registered-ego field.
func (a *E3) isPtrField(fa *ssa.FieldAddr) bool {
	fld := a.structField(fa.X, fa.Field)
	return fld != nil && a.isContainerPtr(fa.X.Type()) && !a.isSpine(fld.Type()) && a.isFieldIface(fld.Type())
}

func isBasicType(t types.Type) bool {
	_, ok := t.Underlying().(*types.Basic)
	return ok
}
