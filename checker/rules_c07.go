package main

// C07 — Equals is exactly typed structural equality.

import (
	"go/ast"
	"go/token"
	"go/types"
)

func init() {
	register(&Property{
		ID: "C07",
		Explanation: "Sibling agreement over the 7 isEqual implementations (Engler-style cross-check): each starts with a comma-ok assertion of the operand to the receiver's own concrete type and returns false when it fails; " +
			"scalars compare the same payload field of both operands with ==; containers compare lengths before the element loop, visit every element/key of the receiver's spine, compare a[k] with b[k] for the same k, " +
			"return false on the first mismatch and true only after the loop; Equals delegates to isEqual with the argument unchanged; the family is write-free (E3). " +
			"Reflexivity/symmetry/transitivity follow on paper from exactness (DESIGN.md §4 C07); NaN is excluded by the property.",
		Rules: []Rule{
			{ID: "C07.R1", Doc: "kind strictness: first action of every isEqual is `x, ok := other.(*Own)` (comma-ok, own type only) and !ok leads to return false", Run: c07Run},
			{ID: "C07.R2", Doc: "scalars return recv.val == other.val on the same payload field; the nil wrapper returns ok", Run: func(c *Ctx) {}},
			{ID: "C07.R3", Doc: "containers: length comparison dominates the loop; loop visits every receiver element/key; compares a[k].isEqual(b[k]) with the same k; false on first mismatch; true only after the loop", Run: func(c *Ctx) {}},
			{ID: "C07.R4", Doc: "Equals delegates to isEqual of the receiver with its argument unchanged", Run: c07R4},
			{ID: "C07.R5", Doc: "PURE: isEqual and Equals write nothing", Run: func(c *Ctx) {
				var names []string
				for _, t := range c.Inv().Impls {
					names = append(names, "(*"+t.Obj().Name()+").isEqual")
				}
				for _, ct := range c.Inv().Conts {
					names = append(names, "(*"+ct.Named.Obj().Name()+").Equals")
				}
				c.R.Floor("C07.R5", pureRule(c, "C07.R5", names), 9)
			}},
		},
	})
}

func c07Run(c *Ctx) {
	n := 0
	for _, t := range c.Inv().Impls {
		name := "(*" + t.Obj().Name() + ").isEqual"
		fd := c.NeedDecl("C07.R1", name)
		if fd == nil {
			continue
		}
		n++
		ct := c.Inv().ContOf(t)
		ob := c.Ob("C07.R1", name, fd.Pos())
		// parameter
		var par types.Object
		if len(fd.Type.Params.List) == 1 && len(fd.Type.Params.List[0].Names) == 1 {
			par = c.Info.Defs[fd.Type.Params.List[0].Names[0]]
		}
		if par == nil || len(fd.Body.List) < 2 {
			ob.Undecided("unexpected signature or body")
			continue
		}
		as, ok := fd.Body.List[0].(*ast.AssignStmt)
		if !ok || len(as.Lhs) != 2 || len(as.Rhs) != 1 {
			ob.Fail("first statement is not a comma-ok type assertion (the one-result form panics on another kind)")
			continue
		}
		ta, ok := unparen(as.Rhs[0]).(*ast.TypeAssertExpr)
		if !ok || ta.Type == nil || c.obj(ta.X) != par {
			ob.Fail("first statement does not assert the operand")
			continue
		}
		own := types.NewPointer(t)
		if !types.Identical(c.typeOf(ta.Type), own) {
			ob.Fail("operand is asserted to %s, not to the receiver's own type %s: values of another kind could compare equal", shortType(c.typeOf(ta.Type)), shortType(own))
			continue
		}
		other, okv := c.obj(as.Lhs[0]), c.obj(as.Lhs[1])
		if okv == nil {
			ob.Fail("the ok result of the assertion is discarded")
			continue
		}
		// no other assertion of the operand anywhere
		extra := false
		ast.Inspect(fd.Body, func(m ast.Node) bool {
			if x, ok := m.(*ast.TypeAssertExpr); ok && x != ta && c.obj(x.X) == par {
				extra = true
			}
			if x, ok := m.(*ast.TypeSwitchStmt); ok {
				_ = x
				extra = true
			}
			return true
		})
		if extra {
			ob.Fail("the operand is examined by a second assertion / type switch: more than one kind is accepted")
			continue
		}
		rest := fd.Body.List[1:]
		isScalar := ct == nil
		st, _ := t.Underlying().(*types.Struct)
		if isScalar && st != nil && st.NumFields() == 0 {
			// nil wrapper: return ok
			r, isR := rest[0].(*ast.ReturnStmt)
			good := len(rest) == 1 && isR && len(r.Results) == 1 && c.obj(r.Results[0]) == okv
			ob.Check(good, "nil equals exactly nil: returns the ok of the own-type assertion", "nil wrapper's isEqual is not `_, ok := other.(*own); return ok`")
			c.Ob("C07.R2", name, fd.Pos()).Check(good, "returns ok", "does not return ok")
			continue
		}
		// second statement: if !ok [|| ...] { return false }
		is, isIf := rest[0].(*ast.IfStmt)
		if !isIf || is.Else != nil || is.Init != nil || !c.returnsConstBool(is.Body, false) {
			ob.Fail("the assertion is not followed by `if !ok ... { return false }`")
			continue
		}
		disj := splitOr(is.Cond)
		at0 := atomOf(disj[0], false)
		if !at0.Neg || c.obj(at0.Expr) != okv {
			ob.Fail("`!ok` is not the first disjunct of the rejecting condition (a later operand would dereference a nil value)")
			continue
		}
		ob.Ok("comma-ok assertion to own type %s; !ok returns false before anything else is evaluated", shortType(own))
		if isScalar {
			c07Scalar(c, fd, name, rest, disj, other, st)
		} else {
			c07Container(c, fd, name, ct, rest, disj, other)
		}
	}
	c.R.Floor("C07.R1", n, 7)
}

func splitOr(e ast.Expr) []ast.Expr {
	e = unparen(e)
	if b, ok := e.(*ast.BinaryExpr); ok && b.Op == token.LOR {
		return append(splitOr(b.X), splitOr(b.Y)...)
	}
	return []ast.Expr{e}
}

func (c *Ctx) returnsConstBool(b *ast.BlockStmt, v bool) bool {
	r := singleReturn(b)
	return r != nil && len(r.Results) == 1 && c.isConstBool(r.Results[0], v)
}

func c07Scalar(c *Ctx, fd *ast.FuncDecl, name string, rest []ast.Stmt, disj []ast.Expr, other types.Object, st *types.Struct) {
	ob := c.Ob("C07.R2", name, fd.Pos())
	if len(disj) != 1 || len(rest) != 2 {
		ob.Fail("scalar isEqual has extra conditions or statements")
		return
	}
	r, ok := rest[1].(*ast.ReturnStmt)
	if !ok || len(r.Results) != 1 {
		ob.Fail("does not end in a return")
		return
	}
	be, ok := unparen(r.Results[0]).(*ast.BinaryExpr)
	if !ok || be.Op != token.EQL {
		ob.Fail("result is not an == comparison")
		return
	}
	ls, ok1 := unparen(be.X).(*ast.SelectorExpr)
	rs, ok2 := unparen(be.Y).(*ast.SelectorExpr)
	if !ok1 || !ok2 {
		ob.Fail("comparison operands are not payload fields")
		return
	}
	recv := c.recvObj(fd)
	a, b := c.obj(ls.X), c.obj(rs.X)
	sameField := c.Info.Selections[ls] != nil && c.Info.Selections[rs] != nil && c.Info.Selections[ls].Obj() == c.Info.Selections[rs].Obj() && st != nil && st.NumFields() == 1 && c.Info.Selections[ls].Obj() == st.Field(0)
	distinct := (a == recv && b == other) || (a == other && b == recv)
	ob.Check(sameField && distinct && other != nil, "returns recv."+ls.Sel.Name+" == other."+rs.Sel.Name+" (same payload field, the two distinct operands)", "scalar comparison is not payload == payload of receiver and operand")
}

func c07Container(c *Ctx, fd *ast.FuncDecl, name string, ct *Cont, rest []ast.Stmt, disj []ast.Expr, other types.Object) {
	ob := c.Ob("C07.R3", name+"/length", fd.Pos())
	// length comparison among the disjuncts after !ok
	lenOK := false
	for _, d := range disj[1:] {
		be, ok := unparen(d).(*ast.BinaryExpr)
		if !ok || be.Op != token.NEQ {
			continue
		}
		if (c.isCountOfRecv(fd, be.X) && c.isCountOfVar(be.Y, other, ct)) || (c.isCountOfRecv(fd, be.Y) && c.isCountOfVar(be.X, other, ct)) {
			lenOK = true
		}
	}
	if len(disj) != 2 {
		lenOK = false
	}
	ob.Check(lenOK, "`count(recv) != count(other)` rejects before the element loop (so a shorter/longer operand or a different key count is unequal, never out of range)",
		"no length comparison `count(recv) != count(other)` guards the element loop: prefix-equality / missing keys would pass, or the loop indexes out of range")
	// loop
	lob := c.Ob("C07.R3", name+"/loop", fd.Pos())
	sl := spineLoops(c, fd)
	if len(sl) != 1 || len(allLoops(fd)) != 1 || len(rest) != 3 || rest[1] != ast.Stmt(sl[0].Stmt) {
		lob.Fail("expected exactly: guard, one range loop over the receiver's spine, return")
		return
	}
	l := sl[0]
	if why := loopEarlyExitNoReturn(l.Stmt); why != "" {
		lob.Fail("%s inside the comparison loop", why)
		return
	}
	nf := c.loopNormalForm(l.Stmt.Body)
	if len(nf.Undecided) > 0 || len(nf.Tests) != 0 || len(nf.Actions) != 1 || nf.Actions[0].Kind != "return" {
		lob.Fail("loop body is not a single guarded `return false`")
		return
	}
	act := nf.Actions[0]
	ret := act.Stmt.(*ast.ReturnStmt)
	if len(ret.Results) != 1 || !c.isConstBool(ret.Results[0], false) || len(act.Guard) != 1 || !act.Guard[0].Neg {
		lob.Fail("the in-loop return is not `if !equal { return false }`")
		return
	}
	call, ok := act.Guard[0].Expr.(*ast.CallExpr)
	if !ok || len(call.Args) != 1 {
		lob.Fail("mismatch test is not a.isEqual(b)")
		return
	}
	sel, ok := unparen(call.Fun).(*ast.SelectorExpr)
	callee := c.callee(call)
	if !ok || callee == nil || callee.Name() != c.FuncObj(fd).Name() {
		lob.Fail("mismatch test does not call the element's isEqual")
		return
	}
	// a = recv.val[k] or the range value; b = other.val[k]; k = range key
	aOK := false
	if ix, ok := unparen(sel.X).(*ast.IndexExpr); ok && c.isRecvSpine(fd, ix.X) && l.Key != nil && c.obj(ix.Index) == l.Key {
		aOK = true
	} else if l.Value != nil && c.obj(sel.X) == l.Value {
		aOK = true
	}
	bOK := false
	if ix, ok := unparen(call.Args[0]).(*ast.IndexExpr); ok && l.Key != nil && c.obj(ix.Index) == l.Key {
		if base, bct := c.spineBase(ix.X); bct == ct && c.obj(base) == other && other != nil {
			bOK = true
		}
	}
	if !aOK || !bOK {
		lob.Fail("elements compared are not recv.spine[k] and other.spine[k] for the same range key k")
		return
	}
	r, isR := rest[2].(*ast.ReturnStmt)
	if !isR || len(r.Results) != 1 || !c.isConstBool(r.Results[0], true) || len(returnsOf(fd.Body)) != 3 {
		lob.Fail("`return true` does not follow the loop as the only other return")
		return
	}
	lob.Ok("every element/key k of the receiver: recv[k].isEqual(other[k]); false on first mismatch; true only after the loop (a missing key yields a nil field, which no isEqual accepts)")
}

// isCountOfVar: len(v.val), v.Count(), v.Ego().Count() for the local v of the container's own pointer type.
func (c *Ctx) isCountOfVar(e ast.Expr, v types.Object, ct *Cont) bool {
	if v == nil {
		return false
	}
	call, ok := unparen(e).(*ast.CallExpr)
	if !ok {
		return false
	}
	if c.isBuiltin(call, "len") && len(call.Args) == 1 {
		base, bct := c.spineBase(call.Args[0])
		return bct == ct && c.obj(base) == v
	}
	if len(call.Args) != 0 {
		return false
	}
	sel, ok := unparen(call.Fun).(*ast.SelectorExpr)
	if !ok || !c.isLenAccessor(c.callee(call)) {
		return false
	}
	x := unparen(sel.X)
	if c.obj(x) == v {
		return true
	}
	if inner, ok := x.(*ast.CallExpr); ok && len(inner.Args) == 0 {
		if s2, ok := unparen(inner.Fun).(*ast.SelectorExpr); ok && c.obj(s2.X) == v && c.isEgoAccessor(c.callee(inner)) {
			return true
		}
	}
	return false
}

func c07R4(c *Ctx) {
	n := 0
	for _, ct := range c.Inv().Conts {
		name := "(*" + ct.Named.Obj().Name() + ").Equals"
		fd := c.NeedDecl("C07.R4", name)
		if fd == nil {
			continue
		}
		n++
		ob := c.Ob("C07.R4", name, fd.Pos())
		var par types.Object
		if len(fd.Type.Params.List) == 1 && len(fd.Type.Params.List[0].Names) == 1 {
			par = c.Info.Defs[fd.Type.Params.List[0].Names[0]]
		}
		r := singleReturn(fd.Body)
		good := false
		if r != nil && len(r.Results) == 1 && par != nil {
			if call, ok := unparen(r.Results[0]).(*ast.CallExpr); ok && len(call.Args) == 1 && c.obj(call.Args[0]) == par {
				if sel, ok := unparen(call.Fun).(*ast.SelectorExpr); ok && c.isSelf(fd, sel.X) {
					if cal := c.callee(call); cal != nil && cal.Name() == "isEqual" {
						good = true
					}
				}
			}
		}
		ob.Check(good, "returns self.isEqual(argument)", "Equals does not simply return isEqual of the receiver with its argument")
	}
	c.R.Floor("C07.R4", n, 2)
}
