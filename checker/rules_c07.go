package main

// C07 — Equals is exactly typed structural equality. Decided on the SX path normal form (robust to
// inverted ifs, `return ok && a == b`, type switches, renamed/hoisted locals, extracted helpers).

import (
	"go/ast"
	"go/token"
	"go/types"
)

func init() {
	register(&Property{
		ID: "C07",
		Explanation: "Sibling agreement over the 7 isEqual implementations, decided on the symbolic path normal form (SX): the result of every scalar isEqual, as a truth table over its two atoms, is exactly `operand has the receiver's own concrete type AND payload == payload` " +
			"(the nil wrapper: `operand is a nil wrapper`), with the payload compared only after the type test succeeded; no other type test of the operand exists. Containers: true is returned only on paths that passed the own-type test, the length equality and the complete element loop; " +
			"the loop ranges the receiver's spine, compares recv[k].isEqual(other[k]) for the same range key k and returns false on the first mismatch; nothing is written (E3). " +
			"Reflexivity/symmetry/transitivity follow on paper from exactness (DESIGN.md §4 C07); NaN is excluded by the property.",
		Rules: []Rule{
			{ID: "C07.R1", Doc: "kind strictness: the only type test of the operand is for the receiver's own concrete type, and a failed test yields false before anything else is evaluated", Run: c07Run},
			{ID: "C07.R2", Doc: "scalars: result == (own type AND recv.payload == other.payload) as a truth table; the nil wrapper: result == own type", Run: func(c *Ctx) {}},
			{ID: "C07.R3", Doc: "containers: true only after own-type test, length equality and the complete loop over the receiver's spine comparing recv[k].isEqual(other[k]); false on first mismatch", Run: func(c *Ctx) {}},
			{ID: "C07.R4", Doc: "Equals delegates to isEqual of the receiver with its argument unchanged", Run: c07R4},
			{ID: "C07.R6", Doc: "isEqual calls isEqual of every element: the From-constructors store a field in every slot, one conversion per entry (= C12.R2), so no element is a nil interface", Run: func(c *Ctx) {
				c.R.Floor("C07.R6", runAs(c, "C07.R6", c12R2, nil), 14)
			}},
			{ID: "C07.R7", Doc: "the length test of isEqual reads Count through the ego pointer while the loop ranges the receiver's own spine: the two agree only if a plain container's ego is the container itself — Init stores its argument, Ego returns it, nothing else writes it (no whole-struct assignment into a live container), every allocation registers itself (= C19.R2)", Run: func(c *Ctx) {
				c.R.Floor("C07.R7", runAs(c, "C07.R7", c19R2, nil), 6)
			}},
			{ID: "C07.R5", Doc: "PURE: isEqual and Equals write nothing", Run: func(c *Ctx) {
				var names []string
				for _, t := range c.Inv().Impls {
					names = append(names, "(*"+t.Obj().Name()+").isEqual")
				}
				for _, ct := range c.Inv().Conts {
					names = append(names, "(*"+ct.Named.Obj().Name()+").Equals")
				}
				c.R.Floor("C07.R5", pureRule(c, "C07.R5", names), 9)
			}},
		},
	})
}

// ownTypeAtom classifies a condition term of an isEqual body: "ok" (own-type test of the operand), "" otherwise.
// It also reports a test of the operand for ANOTHER type.
func ownTypeAtom(t Term, par types.Object, own types.Type) (isOK bool, foreign bool) {
	switch x := t.(type) {
	case TProj:
		if a, ok := x.X.(TAssert); ok && x.K == 1 && isParamTerm(a.X, par) {
			if types.Identical(a.To, own) {
				return true, false
			}
			return false, true
		}
	case TTypeIs:
		if isParamTerm(x.X, par) {
			if x.To != nil && types.Identical(x.To, own) {
				return true, false
			}
			return false, true
		}
	}
	return false, false
}

// otherValue: t is the operand seen as the receiver's own type: another.(*T)#0 or another.(*T) (type-switch binding).
func otherValue(t Term, par types.Object, own types.Type) bool {
	switch x := t.(type) {
	case TProj:
		a, ok := x.X.(TAssert)
		return ok && x.K == 0 && isParamTerm(a.X, par) && types.Identical(a.To, own)
	case TAssert:
		return isParamTerm(x.X, par) && types.Identical(x.To, own)
	}
	return false
}

func c07Run(c *Ctx) {
	n := 0
	for _, t := range c.Inv().Impls {
		name := "(*" + t.Obj().Name() + ").isEqual"
		fd := c.NeedDecl("C07.R1", name)
		if fd == nil {
			continue
		}
		n++
		par := soleParam(c, fd)
		own := types.NewPointer(t)
		ob := c.Ob("C07.R1", name, fd.Pos())
		if par == nil {
			ob.Undecided("unexpected signature")
			continue
		}
		v := c.view(fd)
		paths := c.NewSX().Run(fd)
		why := ""
		for _, p := range paths {
			if p.Why != "" {
				why = p.Why
			}
		}
		if why == "" {
			// a defensive `if another == nil { return false }` in front of the assertion (also inside a shared generic helper)
			// decides nothing the failed assertion does not decide: dropped when the rest, read for a nil operand, says the same
			paths = v.guardSpecNorm(paths)
		}
		if why != "" {
			ob.Undecided("body outside the path vocabulary: %s", why)
			continue
		}
		// a result kept in a local and a loop left by break read as the early return they stand for; a copy of the keys visited
		// instead of the collection reads as the visit of the collection
		paths, _ = c.runPaths(fd)
		// R1: every outcome starts with the own-type test; no foreign type test anywhere; a failed test decides alone
		bad := ""
		for _, o := range boolOutcomes(paths) {
			conds := o.Conds
			if len(conds) == 0 {
				bad = "a path reaches its result without testing the operand's type"
				break
			}
			isOK, _ := ownTypeAtom(conds[0].T, par, own)
			if !isOK {
				bad = "the first decision is not the comma-ok / type-switch test of the operand for the receiver's own type " + shortType(own)
				break
			}
			for _, cd := range conds {
				if _, foreign := ownTypeAtom(cd.T, par, own); foreign {
					bad = "the operand is also tested for another type: values of another kind could compare equal"
				}
			}
			if !conds[0].Truth && (o.Panic || o.Unknown || o.Val || len(conds) != 1 || len(o.Path.Effects()) != 0) {
				bad = "a failed type test does not lead straight to `false`"
			}
		}
		if bad != "" {
			ob.Fail("%s", bad)
			continue
		}
		ob.Ok("the only type test of the operand is for the receiver's own type %s, it is decided first on every path, and a failed test decides the result alone", shortType(own))
		ct := c.Inv().ContOf(t)
		if ct == nil {
			c07Scalar(c, fd, name, t, par, own, v, paths)
		} else {
			c07Container(c, fd, name, ct, par, own, v, paths)
		}
	}
	c.R.Floor("C07.R1", n, 7)
}

func c07Scalar(c *Ctx, fd *ast.FuncDecl, name string, t *types.Named, par types.Object, own types.Type, v *sxView, paths []*Path) {
	ob := c.Ob("C07.R2", name, fd.Pos())
	st, _ := t.Underlying().(*types.Struct)
	outs := boolOutcomes(paths)
	for _, p := range paths {
		if len(p.Effects()) != 0 {
			ob.Fail("scalar isEqual has effects")
			return
		}
	}
	payloadEq := func(tm Term) bool {
		b, ok := tm.(TBin)
		if !ok || b.Op != token.EQL || st == nil || st.NumFields() != 1 {
			return false
		}
		if dl, ok := b.X.(TDeref); ok {
			// *recv == *other: the wrapper has exactly one field, so comparing the structs compares the payloads
			if dr, ok := b.Y.(TDeref); ok {
				return (v.isRecv(dl.X) && otherValue(dr.X, par, own)) || (v.isRecv(dr.X) && otherValue(dl.X, par, own))
			}
			return false
		}
		if lv, ok := v.valueOf(b.X); ok {
			// recv.getVal() == other.getVal(): the accessor of a scalar wrapper hands back its payload (C08.R1 / C12)
			if rv, ok := v.valueOf(b.Y); ok {
				return (v.isRecv(lv) && otherValue(rv, par, own)) || (v.isRecv(rv) && otherValue(lv, par, own))
			}
			return false
		}
		l, ok1 := b.X.(TSel)
		r, ok2 := b.Y.(TSel)
		if !ok1 || !ok2 || l.Field != st.Field(0) || r.Field != st.Field(0) {
			return false
		}
		return (v.isRecv(l.X) && otherValue(r.X, par, own)) || (v.isRecv(r.X) && otherValue(l.X, par, own))
	}
	classify := func(tm Term) string {
		if isOK, _ := ownTypeAtom(tm, par, own); isOK {
			return "own-type"
		}
		if payloadEq(tm) {
			return "payload-equal"
		}
		return ""
	}
	if st != nil && st.NumFields() == 0 {
		why := truthTable(outs, []string{"own-type"}, classify, func(a map[string]bool) (bool, bool) { return a["own-type"], false })
		if why == "" {
			ob.Ok("nil equals exactly nil: result == (operand is a nil wrapper)")
		} else {
			ob.Fail("nil wrapper's isEqual is not `operand is a nil wrapper`: %s", why)
		}
		return
	}
	// the payload comparison may only be evaluated after the type test succeeded
	for _, o := range outs {
		seenOK := false
		for _, cd := range o.Conds {
			if classify(cd.T) == "own-type" && cd.Truth {
				seenOK = true
			}
			if classify(cd.T) == "payload-equal" && !seenOK {
				ob.Fail("the payload is compared before the type test succeeded (nil dereference on another kind)")
				return
			}
		}
	}
	why := truthTable(outs, []string{"own-type", "payload-equal"}, classify, func(a map[string]bool) (bool, bool) { return a["own-type"] && a["payload-equal"], false })
	if why == "" {
		ob.Ok("truth table over {own type, recv.%s == other.%s}: result == both — same payload field on the two distinct operands, compared with ==", st.Field(0).Name(), st.Field(0).Name())
	} else {
		ob.Fail("scalar isEqual is not `own type AND recv.payload == other.payload`: %s", why)
	}
}

func c07Container(c *Ctx, fd *ast.FuncDecl, name string, ct *Cont, par types.Object, own types.Type, v *sxView, paths []*Path) {
	lenOb := c.Ob("C07.R3", name+"/length", fd.Pos())
	loopOb := c.Ob("C07.R3", name+"/loop", fd.Pos())
	// atoms
	isLenCmp := func(tm Term) (eqOp bool, ok bool) {
		b, isB := tm.(TBin)
		if !isB || (b.Op != token.EQL && b.Op != token.NEQ) {
			return false, false
		}
		x, okx := v.countOf(b.X)
		y, oky := v.countOf(b.Y)
		if !okx || !oky {
			return false, false
		}
		if (v.isSelf(x) && otherValue(y, par, own)) || (v.isSelf(y) && otherValue(x, par, own)) {
			return b.Op == token.EQL, true
		}
		return false, false
	}
	nTrue := 0
	for _, p := range paths {
		if p.End != "return" || len(p.Vals) != 1 {
			loopOb.Fail("a path does not return a boolean")
			return
		}
		val := simplify(p.Vals[0])
		if !isConstBoolTerm(val, true) && !isConstBoolTerm(val, false) {
			loopOb.Undecided("container isEqual returns a non-constant %s", c.termStr(val))
			return
		}
		// classify the path: ok?, lenEqual?, passed loop?
		okTrue, lenEq, lenSeen := false, false, false
		var loop *LoopRec
		inLoopReturn := false
		for _, s := range p.Steps {
			switch s.Kind {
			case "cond":
				if isOK, _ := ownTypeAtom(s.Cond.T, par, own); isOK {
					okTrue = s.Cond.Truth
					continue
				}
				if eqOp, ok := isLenCmp(s.Cond.T); ok {
					if loop != nil {
						lenOb.Fail("the length comparison comes after the element loop")
						return
					}
					lenSeen = true
					lenEq = eqOp == s.Cond.Truth
					continue
				}
				if loop != nil {
					inLoopReturn = true // conditions after the loop step belong to an in-loop exit path
					continue
				}
				loopOb.Fail("unexpected decision %s", c.termStr(s.Cond.T))
				return
			case "loop":
				if loop != nil {
					loopOb.Fail("more than one loop")
					return
				}
				loop = s.Loop
			default:
				loopOb.Fail("container isEqual has an effect (%s)", s.Kind)
				return
			}
		}
		if isConstBoolTerm(val, true) {
			nTrue++
			if !okTrue || !lenSeen || !lenEq {
				lenOb.Fail("`true` is returned on a path that did not establish own type and equal lengths: prefix-equality / missing keys would pass, or the loop indexes out of range")
				return
			}
			if loop == nil || inLoopReturn {
				loopOb.Fail("`true` is returned without completing the element loop")
				return
			}
		}
		if loop != nil && !(okTrue && lenSeen && lenEq) {
			lenOb.Fail("the element loop is entered without the own-type test and the length equality")
			return
		}
		if loop != nil {
			if why := c07Loop(c, v, loop, par, own, ct); why != "" {
				loopOb.Fail("%s", why)
				return
			}
		}
	}
	if nTrue != 1 {
		loopOb.Fail("expected exactly one path returning true (after the loop), found %d", nTrue)
		return
	}
	lenOb.Ok("`count(recv) == count(other)` is established before the element loop on the only path that returns true (a shorter/longer operand or a different key count is unequal, never out of range)")
	loopOb.Ok("every element/key k of the receiver: recv[k].isEqual(other[k]); false on first mismatch; true only after the loop (a missing key yields a nil field, which no isEqual accepts)")
}

// c07Loop checks the element loop of a container isEqual.
func c07Loop(c *Ctx, v *sxView, l *LoopRec, par types.Object, own types.Type, ct *Cont) string {
	if r := v.asRange(l); r != nil {
		l = r
	}
	if l.Range == nil || !v.isRecvSpine(l.Over) {
		return "the element loop does not range over the receiver's own spine"
	}
	// an explicit presence test of the counterpart's entry in front of the comparison — `theirs, found := other.spine[k]; if !found
	// { return false }` — is structural equality spelled out (a key the other container lacks makes the two unequal, which the
	// plain form leaves to isEqual(nil)): the absent branch must return false without an effect; the rest is read with the entry
	if len(l.Iter) == 3 && !ct.IsList {
		presence := func(t Term) (Term, bool) {
			pr, ok := t.(TProj)
			if !ok || pr.K != 1 {
				return nil, false
			}
			ix, ok := pr.X.(TIndex)
			if !ok || l.Key == nil || !isParamTerm(ix.I, l.Key) {
				return nil, false
			}
			if base, bct := v.spineOf(ix.X); bct != ct || !otherValue(base, par, own) {
				return nil, false
			}
			return ix, true
		}
		var rest []*Path
		absent := 0
		for _, p := range l.Iter {
			cds := p.Conds()
			if len(cds) == 0 {
				return "loop body is not a single mismatch test"
			}
			ix, ok := presence(cds[0].T)
			if !ok {
				return "loop body is not a single mismatch test"
			}
			if !cds[0].Truth {
				if len(cds) != 1 || p.End != "return" || len(p.Vals) != 1 || !isConstBoolTerm(simplify(p.Vals[0]), false) || len(p.Effects()) != 0 {
					return "a key the other container lacks does not make the two unequal"
				}
				absent++
				continue
			}
			// drop the presence decision; the looked-up value is the entry
			q := *p
			q.Steps = nil
			dropped := false
			for _, st := range p.Steps {
				if !dropped && st.Kind == "cond" && sameTerm(st.Cond.T, cds[0].T) {
					dropped = true
					continue
				}
				q.Steps = append(q.Steps, st)
			}
			rest = append(rest, mapPath(&q, func(t Term) (Term, bool) {
				if pr, ok := t.(TProj); ok && pr.K == 0 && sameTerm(pr.X, ix) {
					return ix, true
				}
				return nil, false
			}))
		}
		if absent != 1 || len(rest) != 2 {
			return "loop body is not a single mismatch test"
		}
		l = &LoopRec{Range: l.Range, For: l.For, Over: l.Over, Key: l.Key, Value: l.Value, Iter: rest, CondT: l.CondT}
	}
	if len(l.Iter) != 2 {
		return "loop body is not a single mismatch test"
	}
	var pass, fail *Path
	for _, p := range l.Iter {
		switch {
		case (p.End == "fall" || p.End == "continue") && len(p.Effects()) == 0:
			pass = p
		case p.End == "return" && len(p.Vals) == 1 && isConstBoolTerm(simplify(p.Vals[0]), false) && len(p.Effects()) == 0:
			fail = p
		default:
			return "loop body has a path that neither continues nor returns false (" + p.End + ")"
		}
	}
	if pass == nil || fail == nil || len(pass.Conds()) != 1 || len(fail.Conds()) != 1 || !pass.Conds()[0].Truth || fail.Conds()[0].Truth || !sameTerm(pass.Conds()[0].T, fail.Conds()[0].T) {
		return "loop body is not `if !a.isEqual(b) { return false }`"
	}
	call, ok := pass.Conds()[0].T.(TCall)
	if !ok || call.Fun == nil || call.Fun.Name() != "isEqual" || len(call.Args) != 1 || call.Recv == nil {
		return "mismatch test is not a.isEqual(b)"
	}
	isKey := func(t Term) bool { return l.Key != nil && isParamTerm(t, l.Key) }
	aOK := false
	if ix, ok := call.Recv.(TIndex); ok && v.isRecvSpine(ix.X) && isKey(ix.I) {
		aOK = true
	} else if l.Value != nil && isParamTerm(call.Recv, l.Value) {
		aOK = true
	}
	bOK := false
	if ix, ok := call.Args[0].(TIndex); ok && isKey(ix.I) {
		if base, bct := v.spineOf(ix.X); bct == ct && otherValue(base, par, own) {
			bOK = true
		}
	}
	if !aOK || !bOK {
		return "elements compared are not recv.spine[k] and other.spine[k] for the same range key k"
	}
	return ""
}

func c07R4(c *Ctx) {
	n := 0
	for _, ct := range c.Inv().Conts {
		name := "(*" + ct.Named.Obj().Name() + ").Equals"
		fd := c.NeedDecl("C07.R4", name)
		if fd == nil {
			continue
		}
		n++
		ob := c.Ob("C07.R4", name, fd.Pos())
		par := soleParam(c, fd)
		v := c.view(fd)
		paths := mergeBoolReturn(c.NewSX().Run(fd)) // `if self.isEqual(x) { return true }; return false` is `return self.isEqual(x)`
		paths = c07DropNilGuard(c, ct, paths, par)
		good := len(paths) == 1 && paths[0].Why == "" && paths[0].End == "return" && len(paths[0].Vals) == 1 && len(paths[0].Effects()) == 0
		if good {
			call, ok := paths[0].Vals[0].(TCall)
			if ok && len(call.Args) == 1 {
				// any(argument): a conversion to an interface type hands on the same value
				if cv, isCv := call.Args[0].(TConv); isCv && cv.To != nil {
					if _, isI := cv.To.Underlying().(*types.Interface); isI {
						call.Args = []Term{cv.X}
					}
				}
			}
			good = ok && call.Fun != nil && call.Fun.Name() == "isEqual" && call.Recv != nil && v.isSelf(call.Recv) && len(call.Args) == 1 && isParamTerm(call.Args[0], par)
		}
		if !good {
			// isEqual's body spelled out: path for path what isEqual of the same container does with the same operand
			if ie := c.Decl("(*" + ct.Named.Obj().Name() + ").isEqual"); ie != nil {
				want := map[string]int{}
				okAll := true
				for _, p := range c.NewSX().Run(ie) {
					if p.Why != "" {
						okAll = false
					}
					want[c.pathSignature(p, nil, c.recvObj(ie), soleParam(c, ie))]++
				}
				for _, p := range paths {
					if p.Why != "" {
						okAll = false
						break
					}
					sg := c.pathSignature(p, nil, c.recvObj(fd), par)
					if want[sg] == 0 {
						okAll = false
						break
					}
					want[sg]--
				}
				for _, k := range want {
					if k != 0 {
						okAll = false
					}
				}
				if okAll && len(paths) > 0 {
					ob.Ok("path for path the body of isEqual of the same container applied to the argument (isEqual spelled out)")
					continue
				}
			}
		}
		ob.Check(good, "returns self.isEqual(argument)", "Equals does not simply return isEqual of the receiver with its argument")
	}
	c.R.Floor("C07.R4", n, 2)
}

// c07DropNilGuard: `if another == nil { return false }` in front of the delegation is redundant when isEqual itself, applied to nil,
// returns false on every feasible path without doing anything (its first decision is the test for its own type, which nil fails):
// isEqual's paths are re-read with the operand bound to nil and the type tests on nil decided.
func c07DropNilGuard(c *Ctx, ct *Cont, paths []*Path, par types.Object) []*Path {
	isNilTest := func(cd Cond) (bool, bool) { // (is the test, operand found nil)
		b, ok := cd.T.(TBin)
		if !ok || (b.Op != token.EQL && b.Op != token.NEQ) {
			return false, false
		}
		x := b.X
		if _, isN := b.Y.(TNil); !isN {
			if _, isN := b.X.(TNil); !isN {
				return false, false
			}
			x = b.Y
		}
		if cv, ok := x.(TConv); ok {
			x = cv.X
		}
		if !isParamTerm(x, par) {
			return false, false
		}
		return true, cd.Truth == (b.Op == token.EQL)
	}
	guard := -1
	for i, p := range paths {
		conds := p.Conds()
		if len(conds) == 1 && len(p.Effects()) == 0 && p.End == "return" && len(p.Vals) == 1 && isConstBoolTerm(p.Vals[0], false) {
			if is, nilFound := isNilTest(conds[0]); is && nilFound {
				guard = i
			}
		}
	}
	if guard < 0 {
		return paths
	}
	ie := c.Decl("(*" + ct.Named.Obj().Name() + ").isEqual")
	if ie == nil {
		return paths
	}
	ipar := soleParam(c, ie)
	a := &armNorm{c: c, mcache: map[*types.Func][]*Path{}, loops: map[*LoopRec]*LoopRec{}}
	for _, p := range c.NewSX().Run(ie) {
		if p.Why != "" {
			return paths
		}
		q := mapPath(p, func(t Term) (Term, bool) {
			if isParamTerm(t, ipar) {
				return TNil{}, true
			}
			return nil, false
		})
		q = a.foldStatic(q)
		if q == nil {
			continue // infeasible for a nil operand
		}
		if q.End != "return" || len(q.Vals) != 1 || !isConstBoolTerm(q.Vals[0], false) || len(q.Effects()) != 0 {
			return paths
		}
	}
	var out []*Path
	for i, p := range paths {
		if i == guard {
			continue
		}
		q := clonePath(p)
		q.Steps = nil
		for _, st := range p.Steps {
			if st.Kind == "cond" {
				if is, _ := isNilTest(st.Cond); is {
					continue
				}
			}
			q.Steps = append(q.Steps, st)
		}
		out = append(out, q)
	}
	return out
}
