package main

// SX helpers: semantic recognisers on terms, finite folding of terms over integer assignments, path printing.

import (
	"fmt"
	"go/ast"
	"go/constant"
	"go/token"
	"go/types"
	"strings"
)

// ---- recognisers (relative to a method declaration fd)

type sxView struct {
	c    *Ctx
	fd   *ast.FuncDecl
	recv types.Object
	ct   *Cont
	// anyOrder: loop normalisation may also present a descending visit of all indices as a range (the rule using this view does not
	// depend on the order in which the elements are visited: a predicate over all of them, a commutative integer fold)
	anyOrder bool
	// heapQuiet: the function under analysis writes nothing that existed before the call and runs no user code (set by runPaths)
	heapQuiet bool
}

func (c *Ctx) view(fd *ast.FuncDecl) *sxView {
	return &sxView{c: c, fd: fd, recv: c.recvObj(fd), ct: c.recvCont(fd)}
}

func (v *sxView) isRecv(t Term) bool {
	tv, ok := t.(TVar)
	return ok && v.recv != nil && tv.Obj == v.recv
}

// isSelf: the receiver, its registered ego (recv.ptr / recv.Ego() / self.Ego()).
func (v *sxView) isSelf(t Term) bool {
	if v.isRecv(t) {
		return true
	}
	return v.isEgo(t)
}

func (v *sxView) isEgo(t Term) bool {
	if v.ct != nil {
		if sel, ok := egoFieldOf(t, v.ct); ok {
			return v.isRecv(sel.X)
		}
	}
	switch x := t.(type) {
	case TCall:
		return x.Fun != nil && len(x.Args) == 0 && x.Recv != nil && v.isSelf(x.Recv) && v.c.isEgoAccessor(x.Fun)
	}
	return false
}

// spineOf: t is X.val for a container's spine field; returns X.
func (v *sxView) spineOf(t Term) (Term, *Cont) {
	s, ok := t.(TSel)
	if !ok {
		return nil, nil
	}
	for _, ct := range v.c.Inv().Conts {
		if s.Field == ct.Spine {
			return s.X, ct
		}
	}
	return nil, nil
}

func (v *sxView) isRecvSpine(t Term) bool {
	x, ct := v.spineOf(t)
	return ct != nil && v.isRecv(x)
}

// countOf: t denotes the current length of X's spine: len(X.val), X.Count(), X.Ego().Count(); returns X.
func (v *sxView) countOf(t Term) (Term, bool) {
	switch x := t.(type) {
	case TBuiltin:
		if x.Name == "len" && len(x.Args) == 1 {
			if b, ct := v.spineOf(x.Args[0]); ct != nil {
				return b, true
			}
		}
	case TCall:
		if x.Fun != nil && len(x.Args) == 0 && x.Recv != nil && v.c.isLenAccessor(x.Fun) {
			r := x.Recv
			// strip an Ego() hop
			if in, ok := r.(TCall); ok && in.Fun != nil && len(in.Args) == 0 && v.c.isEgoAccessor(in.Fun) {
				r = in.Recv
			}
			for _, ct := range v.c.Inv().Conts {
				if s, ok := egoFieldOf(r, ct); ok {
					r = s.X
					break
				}
			}
			return r, true
		}
	}
	return nil, false
}

func (v *sxView) isCountOfRecv(t Term) bool {
	b, ok := v.countOf(t)
	return ok && v.isRecv(b)
}

// selfCall: t is an opaque call self.<name>(args).
func (v *sxView) selfCall(t Term) (string, []Term, bool) {
	c, ok := t.(TCall)
	if !ok || c.Fun == nil || c.Recv == nil || !v.isSelf(c.Recv) {
		return "", nil, false
	}
	return c.Fun.Name(), c.Args, true
}

// isValueOf: t is E.getVal() for the value accessor; returns E.
func (v *sxView) valueOf(t Term) (Term, bool) {
	c, ok := t.(TCall)
	if !ok || c.Fun == nil || len(c.Args) != 0 || c.Recv == nil || !v.c.isValueAccessor(c.Fun) {
		return nil, false
	}
	return c.Recv, true
}

func isParamTerm(t Term, o types.Object) bool {
	tv, ok := t.(TVar)
	return ok && o != nil && tv.Obj == o
}

func isConstBoolTerm(t Term, want bool) bool {
	k, ok := t.(TConst)
	return ok && k.Val.Kind() == constant.Bool && constant.BoolVal(k.Val) == want
}

func isConstStringTerm(t Term) (string, bool) {
	k, ok := t.(TConst)
	if !ok || k.Val.Kind() != constant.String {
		return "", false
	}
	return constant.StringVal(k.Val), true
}

// ---- finite folding of terms

type termEnv struct {
	hook  func(t Term) (int64, bool)
	bhook func(t Term) (bool, bool) // optional: values of boolean atoms (loop-carried flags)
	fail  string
}

func (e *termEnv) int(t Term) (int64, bool) {
	if e.hook != nil {
		if v, ok := e.hook(t); ok {
			return v, true
		}
	}
	switch x := t.(type) {
	case TConst:
		if x.Val.Kind() == constant.Int {
			return constant.Int64Val(x.Val)
		}
	case TConv:
		if b, ok := x.To.Underlying().(*types.Basic); ok && b.Info()&types.IsInteger != 0 {
			v, ok := e.int(x.X)
			if !ok {
				return 0, false
			}
			// narrowing conversions wrap; uint/uint64 keep the bit pattern (compared as unsigned in bool)
			switch b.Kind() {
			case types.Int8:
				v = int64(int8(v))
			case types.Int16:
				v = int64(int16(v))
			case types.Int32:
				v = int64(int32(v))
			case types.Uint8:
				v = int64(uint8(v))
			case types.Uint16:
				v = int64(uint16(v))
			case types.Uint32:
				v = int64(uint32(v))
			}
			return v, true
		}
	case TBuiltin:
		// the value of copy(dst, src) is min(len(dst), len(src)); min/max of integers
		if x.Name == "copy" && len(x.Args) == 2 {
			a, ok1 := e.int(TBuiltin{Name: "len", Args: []Term{x.Args[0]}, Epoch: x.Epoch})
			b, ok2 := e.int(TBuiltin{Name: "len", Args: []Term{x.Args[1]}, Epoch: x.Epoch})
			if ok1 && ok2 {
				if b < a {
					a = b
				}
				return a, true
			}
		}
		if (x.Name == "min" || x.Name == "max") && len(x.Args) >= 1 {
			best, ok := e.int(x.Args[0])
			for _, a := range x.Args[1:] {
				v, ok2 := e.int(a)
				ok = ok && ok2
				if (x.Name == "min" && v < best) || (x.Name == "max" && v > best) {
					best = v
				}
			}
			if ok {
				return best, true
			}
		}
	case TUn:
		if v, ok := e.int(x.X); ok {
			switch x.Op {
			case token.SUB:
				return -v, true
			case token.ADD:
				return v, true
			case token.XOR:
				return ^v, true
			}
		}
	case TBin:
		a, ok1 := e.int(x.X)
		b, ok2 := e.int(x.Y)
		if ok1 && ok2 {
			switch x.Op {
			case token.ADD:
				return a + b, true
			case token.SUB:
				return a - b, true
			case token.MUL:
				return a * b, true
			case token.QUO:
				if b != 0 {
					return a / b, true
				}
			case token.REM:
				if b != 0 {
					return a % b, true
				}
			case token.AND:
				return a & b, true
			case token.OR:
				return a | b, true
			case token.XOR:
				return a ^ b, true
			case token.SHL:
				if b >= 0 && b < 63 {
					return a << uint(b), true
				}
			case token.SHR:
				if b >= 0 && b < 63 {
					return a >> uint(b), true
				}
			}
		}
	}
	if e.fail == "" {
		e.fail = "integer term outside the vocabulary: " + key(t)
	}
	return 0, false
}

func (e *termEnv) bool(t Term) (bool, bool) {
	if e.bhook != nil {
		if v, ok := e.bhook(t); ok {
			return v, true
		}
	}
	switch x := t.(type) {
	case TConst:
		if x.Val.Kind() == constant.Bool {
			return constant.BoolVal(x.Val), true
		}
	case TUn:
		if x.Op == token.NOT {
			if v, ok := e.bool(x.X); ok {
				return !v, true
			}
		}
	case TBin:
		switch x.Op {
		case token.LAND, token.LOR:
			a, ok := e.bool(x.X)
			if !ok {
				return false, false
			}
			if x.Op == token.LAND && !a {
				return false, true
			}
			if x.Op == token.LOR && a {
				return true, true
			}
			return e.bool(x.Y)
		case token.EQL, token.NEQ, token.LSS, token.LEQ, token.GTR, token.GEQ:
			a, ok1 := e.int(x.X)
			b, ok2 := e.int(x.Y)
			if ok1 && ok2 && (unsignedWord(x.X) || unsignedWord(x.Y)) {
				// uint(i) < uint(n): the operands compare as unsigned words (a negative i is a huge number)
				ua, ub := uint64(a), uint64(b)
				switch x.Op {
				case token.EQL:
					return ua == ub, true
				case token.NEQ:
					return ua != ub, true
				case token.LSS:
					return ua < ub, true
				case token.LEQ:
					return ua <= ub, true
				case token.GTR:
					return ua > ub, true
				case token.GEQ:
					return ua >= ub, true
				}
			}
			if ok1 && ok2 {
				switch x.Op {
				case token.EQL:
					return a == b, true
				case token.NEQ:
					return a != b, true
				case token.LSS:
					return a < b, true
				case token.LEQ:
					return a <= b, true
				case token.GTR:
					return a > b, true
				case token.GEQ:
					return a >= b, true
				}
			}
			return false, false
		}
	}
	if e.fail == "" {
		e.fail = "boolean term outside the vocabulary: " + key(t)
	}
	return false, false
}

// ---- printing (debug and evidence samples)

func (c *Ctx) termStr(t Term) string {
	switch x := t.(type) {
	case nil:
		return "_"
	case TConst:
		return x.Val.String()
	case TNil:
		return "nil"
	case TVar:
		return x.Obj.Name()
	case TLoop:
		return x.Obj.Name() + "′"
	case TSel:
		return c.termStr(x.X) + "." + x.Field.Name()
	case TCall:
		n := x.Name
		if x.Fun == nil {
			n = "(" + c.termStr(x.Dyn) + ")"
		}
		var as []string
		for _, a := range x.Args {
			as = append(as, c.termStr(a))
		}
		if x.Recv != nil {
			return c.termStr(x.Recv) + "." + n + "(" + strings.Join(as, ", ") + ")"
		}
		if x.Fun != nil && x.Fun.Pkg() != nil && x.Fun.Pkg() != c.Types {
			n = x.Fun.Pkg().Name() + "." + n
		}
		return n + "(" + strings.Join(as, ", ") + ")"
	case TBuiltin:
		var as []string
		if x.Type != nil {
			as = append(as, shortType(x.Type))
		}
		for _, a := range x.Args {
			as = append(as, c.termStr(a))
		}
		return x.Name + "(" + strings.Join(as, ", ") + ")"
	case TConv:
		return shortType(x.To) + "(" + c.termStr(x.X) + ")"
	case TBin:
		return "(" + c.termStr(x.X) + " " + x.Op.String() + " " + c.termStr(x.Y) + ")"
	case TUn:
		return x.Op.String() + c.termStr(x.X)
	case TIndex:
		return c.termStr(x.X) + "[" + c.termStr(x.I) + "]"
	case TSlice:
		return c.termStr(x.X) + "[" + c.termStr(x.Lo) + ":" + c.termStr(x.Hi) + "]"
	case TAssert:
		return c.termStr(x.X) + ".(" + shortType(x.To) + ")"
	case TProj:
		return c.termStr(x.X) + "#" + itoa(x.K)
	case TLit:
		if _, ok := x.Node.(*ast.FuncLit); ok {
			return "func{…}"
		}
		var as []string
		for _, a := range x.Elts {
			as = append(as, c.termStr(a))
		}
		return shortType(x.Type) + "{" + strings.Join(as, ", ") + "}"
	case TAddr:
		return "&" + c.termStr(x.X)
	case TDeref:
		return "*" + c.termStr(x.X)
	case TTypeIs:
		if x.To == nil {
			return "type(" + c.termStr(x.X) + ")==nil"
		}
		return "type(" + c.termStr(x.X) + ")==" + shortType(x.To)
	case tTuple:
		var as []string
		for _, a := range x.Elts {
			as = append(as, c.termStr(a))
		}
		return "(" + strings.Join(as, ", ") + ")"
	case TUnknown:
		return "?" + x.Why
	}
	return fmt.Sprintf("%T", t)
}

func (c *Ctx) pathStr(p *Path, indent string) string {
	var sb strings.Builder
	for _, s := range p.Steps {
		switch s.Kind {
		case "cond":
			pol := ""
			if !s.Cond.Truth {
				pol = "NOT "
			}
			sb.WriteString(indent + "if " + pol + c.termStr(s.Cond.T) + "\n")
		case "store":
			sb.WriteString(indent + c.termStr(s.LHS) + " = " + c.termStr(s.RHS) + "\n")
		case "call":
			if s.Call != nil {
				sb.WriteString(indent + "call " + c.termStr(*s.Call) + "\n")
			} else if s.Blt != nil {
				sb.WriteString(indent + "call " + c.termStr(*s.Blt) + "\n")
			}
		case "go":
			sb.WriteString(indent + "go " + c.termStr(*s.Call) + "\n")
		case "defer":
			sb.WriteString(indent + "defer " + c.termStr(*s.Call) + "\n")
		case "loop":
			hdr := "for"
			if s.Loop.Range != nil {
				hdr = "range " + c.termStr(s.Loop.Over)
			} else if s.Loop.CondT != nil {
				hdr = "for " + c.termStr(s.Loop.CondT)
			}
			sb.WriteString(indent + hdr + " {\n")
			for i, ip := range s.Loop.Iter {
				sb.WriteString(indent + "  -- iteration path " + itoa(i+1) + "\n")
				sb.WriteString(c.pathStr(ip, indent+"  "))
			}
			sb.WriteString(indent + "}\n")
		}
	}
	var vs []string
	for _, v := range p.Vals {
		vs = append(vs, c.termStr(v))
	}
	sb.WriteString(indent + "=> " + p.End + " " + strings.Join(vs, ", "))
	if p.Why != "" {
		sb.WriteString("   [UNSUPPORTED: " + p.Why + "]")
	}
	sb.WriteString("\n")
	return sb.String()
}

// ---- boolean case analysis of terms (for `return a && b`-style results)

type boolCase struct {
	Conds []Cond
	Val   bool
}

// boolCases splits a boolean term into mutually exclusive cases over its atoms, respecting short-circuit order.
func boolCases(t Term) []boolCase {
	switch v := t.(type) {
	case TConst:
		if v.Val.Kind() == constant.Bool {
			return []boolCase{{nil, constant.BoolVal(v.Val)}}
		}
	case TUn:
		if v.Op == token.NOT {
			cs := boolCases(v.X)
			for i := range cs {
				cs[i].Val = !cs[i].Val
			}
			return cs
		}
	case TBin:
		if v.Op == token.LAND || v.Op == token.LOR {
			var out []boolCase
			for _, l := range boolCases(v.X) {
				short := (v.Op == token.LAND && !l.Val) || (v.Op == token.LOR && l.Val)
				if short {
					out = append(out, l)
					continue
				}
				for _, r := range boolCases(v.Y) {
					out = append(out, boolCase{append(append([]Cond(nil), l.Conds...), r.Conds...), r.Val})
				}
			}
			return out
		}
	}
	return []boolCase{{[]Cond{{T: t, Truth: true}}, true}, {[]Cond{{T: t, Truth: false}}, false}}
}

// boolOutcome describes one complete case of a boolean-valued function: conditions in evaluation order, effects, result.
type boolOutcome struct {
	Conds   []Cond
	Path    *Path
	Val     bool
	Panic   bool
	Unknown bool
}

// boolOutcomes expands the paths of a function returning bool into (conditions -> constant) cases.
func boolOutcomes(paths []*Path) []boolOutcome {
	var out []boolOutcome
	for _, p := range paths {
		switch p.End {
		case "panic":
			out = append(out, boolOutcome{Conds: p.Conds(), Path: p, Panic: true})
		case "return":
			if len(p.Vals) != 1 {
				out = append(out, boolOutcome{Conds: p.Conds(), Path: p, Unknown: true})
				continue
			}
			for _, bc := range boolCases(simplify(p.Vals[0])) {
				out = append(out, boolOutcome{Conds: append(append([]Cond(nil), p.Conds()...), bc.Conds...), Path: p, Val: bc.Val})
			}
		default:
			out = append(out, boolOutcome{Conds: p.Conds(), Path: p, Unknown: true})
		}
	}
	return out
}

// truthTable evaluates outcomes over all assignments of the given atoms (by term key); spec gives the expected result.
// Returns "" if equivalent, otherwise a description. classify maps a condition term to an atom name ("" = unknown atom).
func truthTable(outs []boolOutcome, atoms []string, classify func(Term) string, spec func(a map[string]bool) (val bool, panics bool)) string {
	for mask := 0; mask < 1<<len(atoms); mask++ {
		assign := map[string]bool{}
		for i, a := range atoms {
			assign[a] = mask&(1<<i) != 0
		}
		matched := 0
		for _, o := range outs {
			ok := true
			for _, c := range o.Conds {
				a := classify(c.T)
				if a == "" {
					return "condition outside the expected atoms: " + key(c.T)
				}
				if assign[a] != c.Truth {
					ok = false
					break
				}
			}
			if !ok {
				continue
			}
			matched++
			wantVal, wantPanic := spec(assign)
			if o.Unknown {
				return "a path does not end in a boolean result"
			}
			if o.Panic != wantPanic || (!o.Panic && o.Val != wantVal) {
				return fmt.Sprintf("for %v the result is %s, expected %s", assign, outcomeStr(o.Val, o.Panic), outcomeStr(wantVal, wantPanic))
			}
		}
		if matched == 0 {
			return fmt.Sprintf("no path covers %v", assign)
		}
	}
	return ""
}

func outcomeStr(v, p bool) string {
	if p {
		return "panic"
	}
	return boolStr(v)
}

// ---- numeric folding (float64 domain) for reducers

type numVal struct {
	F     float64
	IsInt bool // dynamic kind int (otherwise float64)
	Other bool // a value of a non-numeric kind (only kind tests apply to it)
}

type numEnv struct {
	vals map[string]numVal // by term key
	fail string
}

func (e *numEnv) setFail(s string) {
	if e.fail == "" {
		e.fail = s
	}
}

// num evaluates a numeric term; conversions to int truncate toward zero as Go does.
func (e *numEnv) num(t Term) (numVal, bool) {
	if v, ok := e.vals[key(t)]; ok {
		return v, true
	}
	switch x := t.(type) {
	case TConst:
		switch x.Val.Kind() {
		case constant.Int:
			f, _ := constant.Float64Val(constant.ToFloat(x.Val))
			return numVal{F: f, IsInt: true}, true
		case constant.Float:
			f, _ := constant.Float64Val(x.Val)
			return numVal{F: f, IsInt: false}, true
		}
	case TProj:
		if a, ok := x.X.(TAssert); ok && x.K == 0 {
			return e.assertVal(a)
		}
	case TAssert:
		return e.assertVal(x)
	case TConv:
		v, ok := e.num(x.X)
		if !ok {
			return numVal{}, false
		}
		b, isB := x.To.Underlying().(*types.Basic)
		if !isB {
			break
		}
		switch {
		case b.Info()&types.IsInteger != 0:
			f := v.F
			if f < 0 {
				f = -float64(int64(-f))
			} else {
				f = float64(int64(f))
			}
			return numVal{F: f, IsInt: true}, true
		case b.Info()&types.IsFloat != 0:
			return numVal{F: v.F, IsInt: false}, true
		}
	case TBin:
		a, ok1 := e.num(x.X)
		b, ok2 := e.num(x.Y)
		if ok1 && ok2 {
			switch x.Op {
			case token.ADD:
				return numVal{F: a.F + b.F, IsInt: a.IsInt && b.IsInt}, true
			case token.SUB:
				return numVal{F: a.F - b.F, IsInt: a.IsInt && b.IsInt}, true
			case token.MUL:
				return numVal{F: a.F * b.F, IsInt: a.IsInt && b.IsInt}, true
			}
		}
	case TUn:
		if v, ok := e.num(x.X); ok && x.Op == token.SUB {
			return numVal{F: -v.F, IsInt: v.IsInt}, true
		}
	case TCall:
		if x.Fun != nil && len(x.Args) == 2 {
			a, ok1 := e.num(x.Args[0])
			b, ok2 := e.num(x.Args[1])
			if ok1 && ok2 {
				switch x.Fun.FullName() {
				case "math.Min":
					if a.F < b.F {
						return numVal{F: a.F, IsInt: false}, true
					}
					return numVal{F: b.F, IsInt: false}, true
				case "math.Max":
					if a.F > b.F {
						return numVal{F: a.F}, true
					}
					return numVal{F: b.F}, true
				}
			}
		}
	}
	e.setFail("numeric term outside the vocabulary: " + key(t))
	return numVal{}, false
}

// assertVal: value of x.(T) when the dynamic kind matches; a mismatching single-result assertion panics (reported as failure).
func (e *numEnv) assertVal(a TAssert) (numVal, bool) {
	v, ok := e.num(a.X)
	if !ok {
		return numVal{}, false
	}
	b, isB := a.To.Underlying().(*types.Basic)
	if !isB {
		e.setFail("assertion to a non-numeric type")
		return numVal{}, false
	}
	wantInt := b.Info()&types.IsInteger != 0
	if wantInt != v.IsInt {
		e.setFail("panic: assertion of a " + map[bool]string{true: "int", false: "float64"}[v.IsInt] + " to " + b.Name())
		return numVal{}, false
	}
	return v, true
}

// cond evaluates a boolean term over numeric values: comparisons, comma-ok kind tests, type-switch tests.
func (e *numEnv) cond(t Term) (bool, bool) {
	switch x := t.(type) {
	case TConst:
		if x.Val.Kind() == constant.Bool {
			return constant.BoolVal(x.Val), true
		}
	case TUn:
		if x.Op == token.NOT {
			v, ok := e.cond(x.X)
			return !v, ok
		}
	case TProj:
		if a, ok := x.X.(TAssert); ok && x.K == 1 {
			return e.kindIs(a.X, a.To)
		}
	case TTypeIs:
		return e.kindIs(x.X, x.To)
	case TBin:
		switch x.Op {
		case token.LAND, token.LOR:
			a, ok := e.cond(x.X)
			if !ok {
				return false, false
			}
			if (x.Op == token.LAND && !a) || (x.Op == token.LOR && a) {
				return a, true
			}
			return e.cond(x.Y)
		case token.EQL, token.NEQ, token.LSS, token.LEQ, token.GTR, token.GEQ:
			a, ok1 := e.num(x.X)
			b, ok2 := e.num(x.Y)
			if !ok1 || !ok2 {
				return false, false
			}
			switch x.Op {
			case token.EQL:
				return a.F == b.F, true
			case token.NEQ:
				return a.F != b.F, true
			case token.LSS:
				return a.F < b.F, true
			case token.LEQ:
				return a.F <= b.F, true
			case token.GTR:
				return a.F > b.F, true
			case token.GEQ:
				return a.F >= b.F, true
			}
		}
	}
	e.setFail("condition outside the vocabulary: " + key(t))
	return false, false
}

func (e *numEnv) kindIs(x Term, T types.Type) (bool, bool) {
	v, ok := e.num(x)
	if !ok {
		return false, false
	}
	if T == nil || v.Other {
		return false, true
	}
	b, isB := T.Underlying().(*types.Basic)
	if !isB {
		return false, true
	}
	switch {
	case b.Kind() == types.Int:
		return v.IsInt, true
	case b.Kind() == types.Float64:
		return !v.IsInt, true
	}
	return false, true
}

// unsignedWord: a conversion to uint, uint64 or uintptr (the value keeps its bit pattern; comparisons are unsigned).
func unsignedWord(t Term) bool {
	cv, ok := t.(TConv)
	if !ok {
		return false
	}
	b, ok := cv.To.Underlying().(*types.Basic)
	return ok && (b.Kind() == types.Uint || b.Kind() == types.Uint64 || b.Kind() == types.Uintptr)
}
