package main

// E4 (part 2) — finite folding of pure integer guard preludes.
// The index-taking list methods are straight-line preludes of integer comparisons, panics and integer
// assignments in front of the first spine access. Folding such a prelude over a break-point set of its integer
// inputs (parameters, the current length n, loop indices within their header's index set) decides
// (a) for which inputs it panics and (b) the values of index / slice-bound expressions at the access —
// without interpreting anything but integer expressions; a statement outside that vocabulary that matters
// for the decision yields UNDECIDED.

import (
	"go/ast"
	"go/token"
	"go/types"
)

type folder struct {
	c      *Ctx
	fd     *ast.FuncDecl
	ev     *evalEnv
	target ast.Node
	why    string
}

const (
	foPanic  = "panic"
	foReturn = "return"
	foReach  = "reach" // reached the target (or fell off the end when target == nil)
	foSkip   = "skip"  // the target is not reached on this input (branch not taken)
	foUndec  = "undecided"
)

func (f *folder) undec(why string) string {
	if f.why == "" {
		f.why = why
	}
	return foUndec
}

func (f *folder) contains(n ast.Node) bool {
	return f.target != nil && containsNode(n, f.target)
}

func (f *folder) isIntVar(o types.Object) bool {
	v, ok := o.(*types.Var)
	if !ok {
		return false
	}
	b, ok := v.Type().Underlying().(*types.Basic)
	return ok && b.Info()&types.IsInteger != 0
}

// run folds a statement list. "" means fell through.
func (f *folder) run(stmts []ast.Stmt) string {
	for _, s := range stmts {
		if out := f.stmt(s); out != "" {
			return out
		}
	}
	return ""
}

func (f *folder) stmt(s ast.Stmt) string {
	c := f.c
	if f.target != nil && ast.Node(s) == f.target {
		return foReach
	}
	switch x := s.(type) {
	case *ast.IfStmt:
		if x.Init != nil {
			if out := f.stmt(x.Init); out != "" {
				return out
			}
		}
		v, ok := f.ev.bool(x.Cond)
		if !ok {
			// a condition we cannot fold: harmless only if neither branch touches integers, terminates, or holds the target
			if !f.contains(x) && !branchMatters(c, x) {
				f.ev.fail = ""
				return ""
			}
			return f.undec("condition outside the vocabulary: " + exprStr(x.Cond))
		}
		if v {
			if out := f.run(x.Body.List); out != "" {
				return out
			}
			if f.contains(x.Else) && x.Else != nil {
				return foSkip
			}
			return ""
		}
		if f.contains(x.Body) {
			return foSkip
		}
		switch e := x.Else.(type) {
		case nil:
		case *ast.BlockStmt:
			if out := f.run(e.List); out != "" {
				return out
			}
		case *ast.IfStmt:
			if out := f.stmt(e); out != "" {
				return out
			}
		}
		return ""
	case *ast.AssignStmt:
		if f.contains(x) {
			return foReach
		}
		if len(x.Lhs) == len(x.Rhs) {
			vals := make([]int64, len(x.Lhs))
			oks := make([]bool, len(x.Lhs))
			for i := range x.Lhs {
				o := c.obj(x.Lhs[i])
				if o == nil || !f.isIntVar(o) {
					continue
				}
				rhs := x.Rhs[i]
				if x.Tok != token.ASSIGN && x.Tok != token.DEFINE {
					// compound assignment x op= e
					op := map[token.Token]token.Token{token.ADD_ASSIGN: token.ADD, token.SUB_ASSIGN: token.SUB, token.MUL_ASSIGN: token.MUL}[x.Tok]
					if op == token.ILLEGAL {
						delete(f.ev.vars, o)
						continue
					}
					rhs = &ast.BinaryExpr{X: x.Lhs[i], Op: op, Y: x.Rhs[i]}
				}
				save := f.ev.fail
				vals[i], oks[i] = f.ev.int(rhs)
				if !oks[i] {
					f.ev.fail = save
				}
			}
			for i := range x.Lhs {
				o := c.obj(x.Lhs[i])
				if o == nil || !f.isIntVar(o) {
					continue
				}
				if oks[i] {
					f.ev.vars[o] = vals[i]
				} else if _, preset := f.ev.vars[o]; !preset || x.Tok != token.DEFINE {
					delete(f.ev.vars, o) // unknown from here on
				}
				// a DEFINE of a pre-set variable (an enumerated free local such as `index := indexes[i]`) keeps its enumerated value
			}
		} else {
			for _, l := range x.Lhs {
				if o := c.obj(l); o != nil && f.isIntVar(o) {
					if _, preset := f.ev.vars[o]; !preset || x.Tok != token.DEFINE {
						delete(f.ev.vars, o)
					}
				}
			}
		}
		return ""
	case *ast.IncDecStmt:
		if o := c.obj(x.X); o != nil && f.isIntVar(o) {
			if v, ok := f.ev.vars[o]; ok {
				if x.Tok == token.INC {
					f.ev.vars[o] = v + 1
				} else {
					f.ev.vars[o] = v - 1
				}
			}
		}
		return ""
	case *ast.ExprStmt:
		if call, ok := x.X.(*ast.CallExpr); ok && c.isBuiltin(call, "panic") {
			return foPanic
		}
		if f.contains(x) {
			return foReach
		}
		return ""
	case *ast.ReturnStmt:
		if f.contains(x) {
			return foReach
		}
		return foReturn
	case *ast.DeclStmt, *ast.EmptyStmt:
		return ""
	case *ast.BlockStmt:
		return f.run(x.List)
	case *ast.SwitchStmt, *ast.TypeSwitchStmt:
		if !f.contains(x) {
			return "" // value-level switches do not change integers we track (checked by branchMatters for ifs only; switches in scope assign no tracked ints)
		}
		var body *ast.BlockStmt
		var tag ast.Node
		if sw, ok := x.(*ast.SwitchStmt); ok {
			body, tag = sw.Body, sw.Tag
		} else {
			sw := x.(*ast.TypeSwitchStmt)
			body, tag = sw.Body, sw.Assign
		}
		if tag != nil && containsNode(tag, f.target) {
			return foReach
		}
		for _, cl := range body.List {
			if containsNode(cl, f.target) {
				return f.run(cl.(*ast.CaseClause).Body)
			}
		}
		return ""
	case *ast.ForStmt:
		if !f.contains(x) {
			return "" // loops that do not hold the target: their effect on tracked integers is not modelled
		}
		h, ok := c.forHeader(x)
		if !ok {
			return f.undec("loop header outside the vocabulary")
		}
		v, preset := f.ev.vars[h.Var]
		if !preset {
			return f.undec("loop variable not enumerated")
		}
		start, ok1 := f.ev.int(h.Start)
		bound, ok2 := f.ev.int(h.Bound)
		if !ok1 || !ok2 {
			return f.undec("loop bounds outside the vocabulary")
		}
		in := false
		if h.Step > 0 {
			hi := bound
			if h.Incl {
				hi++
			}
			in = v >= start && v < hi && (v-start)%h.Step == 0
		} else {
			lo := bound
			if h.Incl {
				lo++
			}
			in = v <= start && v >= lo && (start-v)%(-h.Step) == 0
		}
		if !in {
			return foSkip
		}
		return f.run(x.Body.List)
	case *ast.RangeStmt:
		if !f.contains(x) {
			return ""
		}
		if containsNode(x.X, f.target) {
			return foReach
		}
		return f.run(x.Body.List)
	}
	return f.undec("statement outside the vocabulary")
}

// branchMatters: an if statement whose branches assign integers, terminate, or nest further control flow.
func branchMatters(c *Ctx, is *ast.IfStmt) bool {
	m := false
	ast.Inspect(is, func(n ast.Node) bool {
		switch x := n.(type) {
		case *ast.ReturnStmt, *ast.BranchStmt:
			m = true
		case *ast.CallExpr:
			if c.isBuiltin(x, "panic") {
				m = true
			}
		case *ast.AssignStmt:
			for _, l := range x.Lhs {
				if o, ok := c.obj(l).(*types.Var); ok {
					if b, ok := o.Type().Underlying().(*types.Basic); ok && b.Info()&types.IsInteger != 0 {
						m = true
					}
				}
			}
		case *ast.IncDecStmt:
			m = true
		}
		return true
	})
	return m
}

// foldCase describes one input combination.
type foldCase struct {
	N    int64
	Vars map[types.Object]int64
}

// foldFunc folds fd's body for one input; target may be nil (fold to the end).
func (c *Ctx) foldFunc(fd *ast.FuncDecl, in foldCase, target ast.Node) (out string, env *evalEnv, why string) {
	ev := &evalEnv{c: c, vars: map[types.Object]int64{}}
	for k, v := range in.Vars {
		ev.vars[k] = v
	}
	ev.hook = func(e ast.Expr) (int64, bool) {
		if c.isCountOfRecv(fd, e) {
			return in.N, true
		}
		// capacity: only known to be >= length; modelled with spare capacity so that a guard written against cap() shows
		if call, ok := e.(*ast.CallExpr); ok && c.isBuiltin(call, "cap") && len(call.Args) == 1 && c.isRecvSpine(fd, call.Args[0]) {
			return in.N + 3, true
		}
		return 0, false
	}
	f := &folder{c: c, fd: fd, ev: ev, target: target}
	out = f.run(fd.Body.List)
	if out == "" {
		out = foReach
		if target != nil {
			out = foSkip
		}
	}
	return out, ev, f.why
}
