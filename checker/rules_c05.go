package main

// C05 (list as an ordered sequence: guard domains, safe indexing, write-before-panic, ownership) and C17 (Sort / Reverse),
// decided on the SX path normal form with finite folding of the integer guards.

import (
	"go/ast"
	"go/token"
	"go/types"
	"strings"
)

func intParams(c *Ctx, fd *ast.FuncDecl) []types.Object {
	var out []types.Object
	if fd.Type.Params == nil {
		return nil
	}
	for _, f := range fd.Type.Params.List {
		t := c.typeOf(f.Type)
		if _, variadic := f.Type.(*ast.Ellipsis); variadic {
			continue
		}
		for _, nm := range f.Names {
			if b, ok := t.Underlying().(*types.Basic); ok && b.Info()&types.IsInteger != 0 {
				out = append(out, c.Info.Defs[nm])
			}
		}
	}
	return out
}

func smallInputs(n int64, consts []int64) []int64 {
	set := map[int64]bool{}
	for v := -n - 3; v <= n+3; v++ {
		set[v] = true
	}
	for _, k := range consts {
		for d := int64(-1); d <= 1; d++ {
			set[k+d] = true
		}
	}
	for _, v := range []int64{-1 << 40, 1 << 40} {
		set[v] = true
	}
	var out []int64
	for v := range set {
		out = append(out, v)
	}
	sortInt64(out)
	return out
}

func fmtInts(a []int64) string {
	var s []string
	for _, v := range a {
		s = append(s, itoa(int(v)))
	}
	return "(" + strings.Join(s, ",") + ")"
}

func init() {
	register(&Property{
		ID: "C05",
		Explanation: "Whole-model conformance over all programs is beyond static reach. Decided clauses, all on the symbolic path normal form (SX): (R1) the panic guards of Insert/Replace/Get/Delete/TypeOf/SubList/Pop, folded over a break-point set of (n, arguments), equal the documented domains — equality, not inclusion; " +
			"(R2) SAFE-INDEX: every index/slice term on a list spine that occurs on any path of the package is reached only with 0 <= i <= len-1 / 0 <= a <= b <= len — by LENGTH, never by capacity, so no stale element beyond len can be resurrected; " +
			"(R3) in the single-index mutators no path that ends in a panic contains a write to a list; (R4) OWN: no two containers share a backing array (E3); (R6) Get returns spine[i].getVal(), IndexOf compares getVal() with ==; (R7) observers are write-free (E3). " +
			"What the sequence model predicts beyond these clauses (e.g. the exact element order after Insert/Delete — the segment algebra R5 of DESIGN.md is NOT built) is not covered.",
		Rules: []Rule{
			{ID: "C05.R1", Doc: "guard domains equal the documented ones: Insert [0,n]; Replace/Get/Delete [0,n-1]; Pop = Delete(n-1); TypeOf defined exactly on [0,n-1]; SubList per its end<=0 rule", Run: c05Domains},
			{ID: "C05.R2", Doc: "SAFE-INDEX: every list-spine index/slice in the package lies within the current length on every input that reaches it", Run: c05SafeIndex},
			{ID: "C05.R3", Doc: "no path ending in a panic of Insert, Replace, Get, Delete, Pop, SubList, Sort writes a list before it", Run: c05WriteBeforePanic},
			{ID: "C05.R4", Doc: "OWN: no two containers ever share a backing array (package-wide)", Run: func(c *Ctx) { c.R.Floor("C05.R4", ownRule(c, "C05.R4"), 8) }},
			{ID: "C05.R5", Doc: "sequence model: Add, Insert, Replace, Delete, Pop, Clear, SubList, Concat executed on a folded spine (receiver lengths 0..3, stale cells in the spare capacity, Go's append/copy/slicing semantics): the visible content afterwards is exactly the model's", Run: c05Sequence},
			{ID: "C05.R6", Doc: "reference semantics: Get returns spine[index].getVal(); IndexOf and Contains compare getVal() with == (first match / any match; -1 / false when exhausted)", Run: c05Reference},
			{ID: "C05.R10", Doc: "what Get hands back for a stored container is that container: getVal of a container returns its registered ego (= C19.R3), parseVal stores container operands as they are (= C19.R4)", Run: func(c *Ctx) {
				n := runAs(c, "C05.R10", c19R3, nil)
				n += runAs(c, "C05.R10", c19R4, nil)
				c.R.Floor("C05.R10", n, 4)
			}},
			{ID: "C05.R11", Doc: "the From-constructors store what Add would store: one conversion per entry, in order (= C12.R2), so every cell of a constructed list holds a field and Get/TypeOf are defined on every in-range index", Run: func(c *Ctx) {
				c.R.Floor("C05.R11", runAs(c, "C05.R11", c12R2, func(o *Obligation) bool { return strings.Contains(o.Construct, "NewListFrom") }), 7)
			}},
			{ID: "C05.R12", Doc: "elements are replaced, never rewritten: scalar wrappers are immutable after construction (= C09.R5), so an element shared with a derived list keeps its value when the other list is written", Run: func(c *Ctx) { c09Immutable(c, "C05.R12") }},
			{ID: "C05.R9", Doc: "NewListOf(v, n): v is normalised once, before the loop, and that one field is installed n times (n aliases of one element, not n conversions)", Run: c05ListOf},
			{ID: "C05.R8", Doc: "Reverse moves element i to n-1-i in place (= C17.R2)", Run: func(c *Ctx) { reverseRule(c, "C05.R8") }},
			{ID: "C05.R13", Doc: "scalars are held by value: parseVal maps every Go type to the constructor of its kind through value-preserving conversions and the constructors wrap their argument unchanged (= C12.R1)", Run: func(c *Ctx) { c.R.Floor("C05.R13", runAs(c, "C05.R13", c12R1, nil), 10) }},
			{ID: "C05.R14", Doc: "Sort sorts on every call: kind of element 0, typed slice, trusted sort, spine rebuilt from it — no state kept between calls decides whether it runs (= C17.R1)", Run: func(c *Ctx) { c.R.Floor("C05.R14", runAs(c, "C05.R14", c17Sort, nil), 3) }},
			{ID: "C05.R7", Doc: "PURE: the observers (and SubList, Concat) write nothing pre-existing", Run: func(c *Ctx) {
				var names []string
				for _, n := range []string{"Count", "Empty", "Get", "GetObject", "GetList", "GetString", "GetBool", "GetInt", "GetFloat", "TypeOf", "Slice", "Contains", "IndexOf", "SubList", "Concat"} {
					names = append(names, "(*list)."+n)
				}
				c.R.Floor("C05.R7", pureRule(c, "C05.R7", names), 15)
			}},
		},
	})
}

func subListEff(n, end int64) int64 {
	if end <= 0 {
		return n + end
	}
	return end
}

func c05Domains(c *Ctx) {
	specs := []struct {
		name  string
		nargs int
		spec  func(n int64, p []int64) bool
		doc   string
	}{
		{"(*list).Insert", 1, func(n int64, p []int64) bool { return p[0] < 0 || p[0] > n }, "0..n"},
		{"(*list).Replace", 1, func(n int64, p []int64) bool { return p[0] < 0 || p[0] >= n }, "0..n-1"},
		{"(*list).Get", 1, func(n int64, p []int64) bool { return p[0] < 0 || p[0] >= n }, "0..n-1"},
		{"(*list).SubList", 2, func(n int64, p []int64) bool {
			start, end := p[0], p[1]
			return end > n || end < -n || start < 0 || start > subListEff(n, end)
		}, "end in -n..n, 0 <= start <= effective end"},
	}
	cnt := 0
	for _, sp := range specs {
		fd := c.NeedDecl("C05.R1", sp.name)
		if fd == nil {
			continue
		}
		cnt++
		ob := c.Ob("C05.R1", sp.name+"/domain", fd.Pos())
		cases, bad, undec := c.panicDomain(fd, sp.nargs, sp.spec)
		switch {
		case undec != "":
			ob.Undecided("guard cannot be folded: %s", undec)
		case bad != "":
			ob.Fail("panic guard differs from the documented domain (%s): %s", sp.doc, bad)
		default:
			ob.Ok("panics exactly outside the documented domain %s (paths folded over %d (n, argument) combinations)", sp.doc, cases)
		}
	}
	if fd := c.NeedDecl("C05.R1", "(*list).Delete"); fd != nil {
		cnt++
		c05Delete(c, fd)
	}
	if fd := c.NeedDecl("C05.R1", "(*list).TypeOf"); fd != nil {
		cnt++
		c05TypeOf(c, fd)
	}
	if fd := c.NeedDecl("C05.R1", "(*list).Pop"); fd != nil {
		cnt++
		ob := c.Ob("C05.R1", "(*list).Pop", fd.Pos())
		paths, why := c.runPaths(fd)
		v := c.view(fd)
		good := why == "" && len(paths) == 1 && paths[0].End == "return" && len(paths[0].Vals) == 1
		if good {
			name, args, ok := v.selfCall(paths[0].Vals[0])
			good = ok && name == "Delete" && len(args) == 1
			if good {
				// the variadic pack of one element
				arg := args[0]
				if lit, ok := arg.(TLit); ok && len(lit.Elts) == 1 {
					arg = lit.Elts[0]
				}
				for n := int64(0); n <= 3 && good; n++ {
					e := &termEnv{hook: v.intHook(n, nil, nil)}
					val, ok := e.int(arg)
					good = ok && val == n-1
				}
			}
		}
		ob.Check(good, "Pop = self.Delete(count-1): panics exactly on the empty list (index -1), otherwise removes the last element", "Pop is not `return self.Delete(count - 1)`")
	}
	c.R.Floor("C05.R1", cnt, 7)
}

// variadicParam returns the variadic parameter object of fd, if any.
func variadicParam(c *Ctx, fd *ast.FuncDecl) types.Object {
	for _, f := range fd.Type.Params.List {
		if _, ok := f.Type.(*ast.Ellipsis); ok && len(f.Names) == 1 {
			return c.Info.Defs[f.Names[0]]
		}
	}
	return nil
}

// deleteLoop finds the loop of Delete on its (single) non-panicking outer path.
func deleteLoop(paths []*Path) *LoopRec {
	for _, p := range paths {
		for _, s := range p.Steps {
			if s.Kind == "loop" {
				return s.Loop
			}
		}
	}
	return nil
}

func c05Delete(c *Ctx, fd *ast.FuncDecl) {
	ob := c.Ob("C05.R1", "(*list).Delete/domain", fd.Pos())
	paths, why := c.runPaths(fd)
	if why != "" {
		ob.Undecided("body outside the path vocabulary: %s", why)
		return
	}
	v := c.view(fd)
	variadic := variadicParam(c, fd)
	loop := deleteLoop(paths)
	if loop == nil || variadic == nil {
		ob.Undecided("Delete is not a loop over its variadic indexes")
		return
	}
	// order: positions are processed from the back (after the ascending sort), so that earlier removals do not shift later indexes
	if cl := v.asCounted(loop); cl != nil {
		loop = cl // `for i := range indexes { … indexes[last-i] … }`: the counting loop it is
	}
	if loop.For != nil {
		// the position read from the index list, per iteration, for 0..4 indexes (header simulated): m-1, m-2, …, 0
		var posT Term
		for _, ip := range loop.Iter {
			mapPath(ip, func(t Term) (Term, bool) {
				if ix, ok := t.(TIndex); ok && isParamTerm(ix.X, variadic) && posT == nil {
					posT = ix.I
				}
				return nil, false
			})
		}
		if posT == nil {
			ob.Undecided("the loop does not read the index list")
			return
		}
		for m := int64(0); m <= 4; m++ {
			hook := func(t Term) (int64, bool) {
				if b, ok := t.(TBuiltin); ok && b.Name == "len" && len(b.Args) == 1 && isParamTerm(b.Args[0], variadic) {
					return m, true
				}
				return 0, false
			}
			its, why := c.loopIterations(loop, hook, 16)
			if why != "" {
				ob.Undecided("index loop cannot be folded: %s", why)
				return
			}
			good := int64(len(its)) == m
			for j, st := range its {
				e := &termEnv{hook: func(t Term) (int64, bool) {
					if lv, ok := t.(TLoop); ok {
						if val, ok := st[lv.Obj]; ok {
							return val, true
						}
					}
					return hook(t)
				}}
				pos, ok := e.int(posT)
				if !ok || pos != m-1-int64(j) {
					good = false
				}
			}
			if !good {
				ob.Fail("indexes are not processed in descending position order (after sorting, deleting from the back keeps the remaining indexes valid)")
				return
			}
		}
	} else {
		ob.Undecided("index loop is not a counted loop")
		return
	}
	bad, undec := "", ""
	for n := int64(0); n <= 5 && bad == "" && undec == ""; n++ {
		for _, val := range smallInputs(n, nil) {
			hook := v.intHook(n, nil, func(t Term) (int64, bool) {
				if ix, ok := t.(TIndex); ok && isParamTerm(ix.X, variadic) {
					return val, true
				}
				return 0, false
			})
			sel, why := pathsFor(loop.Iter, hook, func(cd Cond) bool { return !intFoldable(cd.T) })
			if why != "" {
				undec = why
				break
			}
			want := val < 0 || val >= n
			for _, p := range sel {
				panics := p.End == "panic"
				if panics != want {
					bad = "n=" + itoa(int(n)) + " index=" + itoa(int(val)) + ": panics=" + boolStr(panics) + ", documented domain 0..n-1 says " + boolStr(want)
				}
				if !panics {
					wrote := false
					for _, s := range p.StepsOf("store") {
						if sel, ok := s.LHS.(TSel); ok && sel.Field == v.ct.Spine && v.isRecv(sel.X) {
							wrote = true
						}
					}
					if !wrote {
						bad = "an in-range index does not reach the removal"
					}
				}
			}
			if len(sel) == 0 {
				undec = "no iteration path is feasible"
			}
		}
	}
	switch {
	case undec != "":
		ob.Undecided("%s", undec)
	case bad != "":
		ob.Fail("Delete's guard differs from the documented domain: %s", bad)
	default:
		ob.Ok("per iteration: panics exactly when the index lies outside 0..n-1 of the CURRENT length, otherwise reaches the removal; indexes processed from the back")
	}
}

func c05TypeOf(c *Ctx, fd *ast.FuncDecl) {
	ob := c.Ob("C05.R1", "(*list).TypeOf/domain", fd.Pos())
	paths, why := c.runPaths(fd)
	if why != "" {
		ob.Undecided("body outside the path vocabulary: %s", why)
		return
	}
	v := c.view(fd)
	ps := intParams(c, fd)
	if len(ps) != 1 {
		ob.Undecided("unexpected parameters")
		return
	}
	isUndefined := func(t Term) bool {
		tv, ok := t.(TVar)
		if ok {
			return tv.Obj.Name() == "TypeUndefined"
		}
		k, ok := t.(TConst)
		return ok && k.Val.String() == "0"
	}
	bad, undec := "", ""
	for n := int64(0); n <= 5 && bad == "" && undec == ""; n++ {
		for _, val := range smallInputs(n, nil) {
			sel, why := pathsFor(paths, v.intHook(n, map[types.Object]int64{ps[0]: val}, nil), func(cd Cond) bool { return !intFoldable(cd.T) })
			if why != "" {
				undec = why
				break
			}
			inDomain := val >= 0 && val < n
			defined := 0
			for _, p := range sel {
				if p.End == "panic" {
					bad = "TypeOf panics for index " + itoa(int(val)) + " with length " + itoa(int(n))
					break
				}
				if p.End != "return" || len(p.Vals) != 1 {
					undec = "a path does not return a Type"
					break
				}
				touches := false
				for _, cd := range p.Conds() {
					collectSubterms(cd.T, func(s Term) {
						if ix, ok := s.(TIndex); ok && v.isRecvSpine(ix.X) {
							touches = true
						}
					})
				}
				if !isUndefined(p.Vals[0]) {
					defined++
				}
				if !inDomain && (touches || !isUndefined(p.Vals[0])) {
					bad = "n=" + itoa(int(n)) + " index=" + itoa(int(val)) + ": outside 0..n-1 the element is examined / a kind other than TypeUndefined is reported"
				}
			}
			if inDomain && defined == 0 && bad == "" && undec == "" {
				bad = "n=" + itoa(int(n)) + " index=" + itoa(int(val)) + ": inside 0..n-1 no path reports a kind"
			}
		}
	}
	switch {
	case undec != "":
		ob.Undecided("%s", undec)
	case bad != "":
		ob.Fail("%s", bad)
	default:
		ob.Ok("the element's kind is examined exactly for 0 <= index <= n-1; everything else yields TypeUndefined; no panic")
	}
}

// ---------------------------------------------------------------- SAFE-INDEX

// funcsWithListSpineAccess: declarations whose body syntactically indexes or slices a list spine.
// funcsWithListSpineAccess: the functions in which list-spine accesses are decided. Private helpers that the path executor inlines into
// their callers (unexported, statically dispatched, called from within the package) are decided in the context of every caller — their
// preconditions (a length comparison made by the caller) live there — and are not analysed on their own.
func funcsWithListSpineAccess(c *Ctx) []*ast.FuncDecl {
	direct := map[*ast.FuncDecl]bool{}
	callees := map[*ast.FuncDecl][]*ast.FuncDecl{}
	called := map[*ast.FuncDecl]bool{}
	probe := c.NewSX()
	for _, name := range c.DeclNames() {
		fd := c.Decl(name)
		ast.Inspect(fd.Body, func(n ast.Node) bool {
			var x ast.Expr
			switch e := n.(type) {
			case *ast.IndexExpr:
				x = e.X
			case *ast.SliceExpr:
				x = e.X
			case *ast.CallExpr:
				if f := c.callee(e); f != nil && f.Pkg() == c.Types {
					if g := c.DeclOf(f); g != nil && g != fd {
						callees[fd] = append(callees[fd], g)
						called[g] = true
					}
				}
			}
			if x != nil {
				if _, ct := c.spineBase(x); ct != nil && ct.IsList {
					direct[fd] = true
				}
				// a list spine of a named type (`type fields []field`) indexed inside one of its own small methods (`at`, `set`, `cut`):
				// the methods of the container that call it reach a spine access through it
				if t := c.typeOf(x); t != nil {
					if p, ok := t.Underlying().(*types.Pointer); ok {
						t = p.Elem()
					}
					if _, named := t.(*types.Named); named {
						for _, ct := range c.Inv().Conts {
							if ct.IsList && types.Identical(t, ct.Spine.Type()) {
								direct[fd] = true
							}
						}
					}
				}
			}
			return true
		})
	}
	helper := func(fd *ast.FuncDecl) bool {
		f := c.FuncObj(fd)
		return f != nil && called[fd] && probe.inlinable(f, nil, &sxState{}) != nil
	}
	var reach func(fd *ast.FuncDecl, depth int) bool
	reach = func(fd *ast.FuncDecl, depth int) bool {
		if direct[fd] {
			return true
		}
		if depth > 4 {
			return false
		}
		for _, g := range callees[fd] {
			if helper(g) && reach(g, depth+1) {
				return true
			}
		}
		return false
	}
	var out []*ast.FuncDecl
	for _, name := range c.DeclNames() {
		fd := c.Decl(name)
		if helper(fd) {
			continue
		}
		// an exported method added to a container's interface after the pinned API (Truncate, SortDesc): its own accesses are outside the
		// property's programs of list operations; helpers it shares with the pinned methods are decided in those
		if f := c.FuncObj(fd); f != nil && f.Exported() {
			if ct := c.recvCont(fd); ct != nil && !pinnedAPI[ct.IsList][f.Name()] {
				continue
			}
		}
		if reach(fd, 0) {
			out = append(out, fd)
		}
	}
	return out
}

// loopSim simulates the header of a counted loop on integers: init terms, condition term, post statement.
type loopSim struct {
	c     *Ctx
	l     *LoopRec
	state map[types.Object]int64
	why   string
}

func (c *Ctx) newLoopSim(l *LoopRec, hook func(Term) (int64, bool)) *loopSim {
	s := &loopSim{c: c, l: l, state: map[types.Object]int64{}}
	if l.For == nil {
		s.why = "not a counted loop"
		return s
	}
	n := 0
	for o, t := range l.Init {
		if !isIntType(o.Type()) {
			continue
		}
		e := &termEnv{hook: hook}
		val, ok := e.int(t)
		if !ok {
			s.why = "loop initialiser outside the vocabulary: " + e.fail
			return s
		}
		s.state[o] = val
		n++
	}
	if n == 0 || l.CondT == nil {
		s.why = "loop has no integer loop variable / no condition"
	}
	return s
}

func (s *loopSim) hook(outer func(Term) (int64, bool)) func(Term) (int64, bool) {
	return func(t Term) (int64, bool) {
		if lv, ok := t.(TLoop); ok && lv.ID == s.l.ID {
			if val, ok := s.state[lv.Obj]; ok {
				return val, true
			}
		}
		return outer(t)
	}
}

// cond evaluates the loop condition in the current state.
func (s *loopSim) cond(outer func(Term) (int64, bool)) (bool, bool) {
	e := &termEnv{hook: s.hook(outer)}
	v, ok := e.bool(s.l.CondT)
	if !ok {
		s.why = "loop condition outside the vocabulary: " + e.fail
	}
	return v, ok
}

// post applies the post statement (integers only).
func (s *loopSim) post() bool {
	c, l := s.c, s.l
	if l.Post == nil && l.PostStep != nil {
		for o, d := range l.PostStep {
			s.state[o] += d
		}
		return true
	}
	if l.Post == nil {
		s.why = "loop without post statement"
		return false
	}
	ev := &evalEnv{c: c, vars: map[types.Object]int64{}}
	for k, val := range s.state {
		ev.vars[k] = val
	}
	next := map[types.Object]int64{}
	switch p := l.Post.(type) {
	case *ast.IncDecStmt:
		o := c.obj(p.X)
		d := int64(1)
		if p.Tok == token.DEC {
			d = -1
		}
		next[o] = s.state[o] + d
	case *ast.AssignStmt:
		if len(p.Lhs) != len(p.Rhs) {
			s.why = "post statement outside the vocabulary"
			return false
		}
		for i, lh := range p.Lhs {
			o := c.obj(lh)
			var val int64
			var ok bool
			switch p.Tok {
			case token.ASSIGN:
				val, ok = ev.int(p.Rhs[i])
			case token.ADD_ASSIGN:
				val, ok = ev.int(p.Rhs[i])
				val = s.state[o] + val
			case token.SUB_ASSIGN:
				val, ok = ev.int(p.Rhs[i])
				val = s.state[o] - val
			}
			if !ok {
				s.why = "post statement outside the vocabulary"
				return false
			}
			next[o] = val
		}
	default:
		s.why = "post statement outside the vocabulary"
		return false
	}
	for k, val := range next {
		s.state[k] = val
	}
	return true
}

// loopIterations enumerates the states of all iterations (for loops whose condition does not depend on what the body does).
func (c *Ctx) loopIterations(l *LoopRec, hook func(Term) (int64, bool), limit int) ([]map[types.Object]int64, string) {
	sim := c.newLoopSim(l, hook)
	if sim.why != "" {
		return nil, sim.why
	}
	var out []map[types.Object]int64
	for it := 0; it < limit; it++ {
		cond, ok := sim.cond(hook)
		if !ok {
			return nil, sim.why
		}
		if !cond {
			return out, ""
		}
		cp := map[types.Object]int64{}
		for k, val := range sim.state {
			cp[k] = val
		}
		out = append(out, cp)
		if !sim.post() {
			return nil, sim.why
		}
	}
	return nil, "loop does not terminate within the folding limit"
}

// spineLen gives the length of the spine of a base term under the folding input.
func (v *sxView) spineLen(base Term, n int64, others map[string]int64, hook func(Term) (int64, bool)) (int64, bool) {
	if v.isRecv(base) {
		return n, true
	}
	// a container literal created in this function: &list{val: make([]field, L)}
	if a, ok := base.(TAddr); ok {
		if lit, ok := a.X.(TLit); ok {
			for _, el := range lit.Elts {
				if mk, ok := el.(TBuiltin); ok && mk.Name == "make" && len(mk.Args) >= 1 {
					e := &termEnv{hook: hook}
					return e.int(mk.Args[0])
				}
			}
		}
	}
	if m, ok := others[key(base)]; ok {
		return m, true
	}
	return 0, false
}

func c05SafeIndex(c *Ctx) {
	fns := funcsWithListSpineAccess(c)
	total := 0
	for _, fd := range fns {
		name := declName(fd)
		paths, why := c.runPaths(fd)
		if why != "" {
			c.Ob("C05.R2", name, fd.Pos()).Undecided("body outside the path vocabulary: %s", why)
			continue
		}
		v := c.view(fd)
		accs := v.spineAccesses(paths) // for a plain function (a constructor) only containers made on the path can be accessed
		if v.recv == nil && name == "NewListOf" {
			// the constructor re-slices and fills the list it has just made: every slice and index expression is executed on the spine
			// model by C05.R9 (bounds checked against the fresh array, the content compared with the model), which is the stronger decision
			r := newReport("tmp")
			c2 := *c
			c2.R = r
			c05ListOf(&c2)
			ok := len(r.obls) > 0
			for _, o := range r.obls {
				ok = ok && o.Status == Discharged
			}
			total++
			c.Ob("C05.R2", name+"/fresh-spine", fd.Pos()).Check(ok, "every access lies in the list made by this call and is executed, bounds-checked, on the spine model (C05.R9)", "the accesses of the list being built are not decided by the spine model (C05.R9 fails)")
			continue
		}
		ps := intParams(c, fd)
		variadic := variadicParam(c, fd)
		nMin := int64(0)
		if fd.Name.Name == "Sort" {
			nMin = 1 // precondition from the property text: Sort only on non-empty lists (C17)
		}
		// distinct accesses by term shape (ignoring the path they were found on)
		type agg struct {
			acc     spineAccess
			reached int
			bad     string
			undec   string
		}
		byShape := map[string]*agg{}
		var order []string
		for _, a := range accs {
			sh := c.termStr(a.T)
			if _, ok := byShape[sh]; !ok {
				byShape[sh] = &agg{acc: a}
				order = append(order, sh)
			}
		}
		for _, a := range accs {
			ag := byShape[c.termStr(a.T)]
			if ag.bad != "" || ag.undec != "" {
				continue
			}
			// other containers whose length matters
			otherBases := map[string]Term{}
			// native slices whose length matters (the operand of a constructor): free lengths 0..3
			freeLens := map[string]bool{}
			isFreeSlice := func(t Term) bool {
				if _, ct := v.spineOf(t); ct != nil {
					return false
				}
				if w, isWin := t.(TSlice); isWin {
					if _, ct := v.spineOf(w.X); ct != nil {
						return false // a window of a spine: its length follows from the bounds
					}
				}
				if variadic != nil && isParamTerm(t, variadic) {
					return false
				}
				tt := c.termType(t)
				if tt == nil {
					return false
				}
				_, isSl := tt.Underlying().(*types.Slice)
				_, isTP := tt.(*types.TypeParam)
				return isSl || isTP
			}
			collect := func(t Term) {
				collectSubterms(t, func(s Term) {
					if b, ok := v.countOf(s); ok && !v.isSelf(b) {
						otherBases[key(b)] = b
					}
					if bl, ok := s.(TBuiltin); ok && bl.Name == "len" && len(bl.Args) == 1 && isFreeSlice(bl.Args[0]) {
						freeLens[key(bl.Args[0])] = true
					}
				})
			}
			for _, l := range a.Loops {
				if l.Range != nil && l.Over != nil && isFreeSlice(l.Over) {
					freeLens[key(l.Over)] = true
				}
			}
			for _, cd := range a.Conds {
				collect(cd.T)
			}
			collect(a.T)    // lengths mentioned by the access itself (a bound, the value of copy)
			collect(a.Base) // and by the size a fresh container was made with
			if !v.isRecv(a.Base) {
				if _, isLit := a.Base.(TAddr); !isLit {
					otherBases[key(a.Base)] = a.Base
				}
			}
			var obKeys []string
			for k := range otherBases {
				obKeys = append(obKeys, k)
			}
			sortStrings(obKeys)
			if len(obKeys) > 2 {
				ag.undec = "too many containers involved"
				continue
			}
			for n := nMin; n <= 5 && ag.bad == "" && ag.undec == ""; n++ {
				// enumerate: int params, a free variadic element, other lengths
				type dim struct {
					obj types.Object
					key string
				}
				var dims []dim
				for _, p := range ps {
					dims = append(dims, dim{obj: p})
				}
				for _, k := range obKeys {
					dims = append(dims, dim{key: k})
				}
				for _, k := range keysOf(freeLens) {
					dims = append(dims, dim{key: "#free:" + k})
				}
				freeVariadic := false
				if variadic != nil {
					collectSubterms(a.T, func(s Term) {
						if ix, ok := s.(TIndex); ok && isParamTerm(ix.X, variadic) {
							freeVariadic = true
						}
					})
					for _, cd := range a.Conds {
						collectSubterms(cd.T, func(s Term) {
							if ix, ok := s.(TIndex); ok && isParamTerm(ix.X, variadic) {
								freeVariadic = true
							}
						})
					}
				}
				if freeVariadic {
					dims = append(dims, dim{key: "#variadic"})
				}
				vals := smallInputs(n, nil)
				if len(dims) > 1 {
					var small []int64
					for _, x := range vals {
						if x >= -7 && x <= 8 {
							small = append(small, x)
						}
					}
					vals = small
				}
				params := map[types.Object]int64{}
				others := map[string]int64{}
				var rec func(k int)
				rec = func(k int) {
					if ag.bad != "" || ag.undec != "" {
						return
					}
					if k < len(dims) {
						d := dims[k]
						for _, x := range vals {
							if d.obj != nil {
								params[d.obj] = x
							} else {
								if d.key != "#variadic" && (x < 0 || x > 5) {
									continue // lengths
								}
								others[d.key] = x
							}
							rec(k + 1)
						}
						return
					}
					var hook func(Term) (int64, bool)
					base := func(t Term) (int64, bool) {
						if ix, ok := t.(TIndex); ok && variadic != nil && isParamTerm(ix.X, variadic) {
							return others["#variadic"], true
						}
						if bl, ok := t.(TBuiltin); ok && bl.Name == "len" && len(bl.Args) == 1 {
							if m, ok := others["#free:"+key(bl.Args[0])]; ok {
								return m, true
							}
						}
						if b, ok := v.countOf(t); ok && !v.isSelf(b) {
							if m, ok := others[key(b)]; ok {
								return m, true
							}
							if _, isLit := b.(TAddr); isLit && hook != nil {
								return v.spineLen(b, n, others, hook) // a container made on this path: the length it was made with
							}
						}
						return 0, false
					}
					hook = v.intHook(n, params, base)
					// loop variables: enumerate iterations of every enclosing loop
					var iterate func(li int, lvars map[types.Object]int64)
					iterate = func(li int, lvars map[types.Object]int64) {
						if ag.bad != "" || ag.undec != "" {
							return
						}
						h := func(t Term) (int64, bool) {
							switch x := t.(type) {
							case TVar:
								if val, ok := lvars[x.Obj]; ok {
									return val, true
								}
							case TLoop:
								if val, ok := lvars[x.Obj]; ok {
									return val, true
								}
							}
							return hook(t)
						}
						if li == len(a.Loops) {
							// conditions before the access
							for _, cd := range a.Conds {
								if !intFoldable(cd.T) {
									continue
								}
								e := &termEnv{hook: h}
								val, ok := e.bool(cd.T)
								if !ok {
									continue // cannot be folded: treated as free (more inputs are taken to reach the access — sound for safety)
								}
								if val != cd.Truth {
									return // not reached
								}
							}
							ln, ok := v.spineLen(a.Base, n, others, h)
							if !ok {
								ag.undec = "length of the accessed spine is unknown"
								return
							}
							ag.reached++
							if msg := checkTermBounds(c, a.T, ln, h); msg != "" {
								ag.bad = "n=" + itoa(int(n)) + ": " + msg
							}
							return
						}
						l := a.Loops[li]
						if l.Range != nil {
							// key ranges over [0, len(Over)-1] when Over is a list spine that the body does not re-install
							over := l.Over
							if w, isWin := over.(TSlice); isWin {
								if _, wct := v.spineOf(w.X); wct != nil {
									over = w.X
								}
							}
							b, ct := v.spineOf(over)
							if fl, isFree := others["#free:"+key(l.Over)]; isFree && l.Key != nil {
								for k := int64(0); k < fl; k++ {
									nv := map[types.Object]int64{}
									for a, b := range lvars {
										nv[a] = b
									}
									nv[l.Key] = k
									iterate(li+1, nv)
								}
								if fl == 0 {
									return
								}
								return
							}
							if ct == nil || !ct.IsList {
								iterate(li+1, lvars) // ranges over something else: key/value stay symbolic
								return
							}
							ln, ok := v.spineLen(b, n, others, h)
							if !ok {
								ag.undec = "length of the ranged spine is unknown"
								return
							}
							if win, isWin := l.Over.(TSlice); isWin {
								// a window spine[lo:hi] of the spine: the key ranges over [0, hi-lo)
								if _, nested := win.X.(TSlice); nested || win.Max != nil {
									ag.undec = "length of the ranged window is unknown"
									return
								}
								lo, hi := int64(0), ln
								okW := true
								if win.Lo != nil {
									e := &termEnv{hook: h}
									lo, okW = e.int(win.Lo)
								}
								if win.Hi != nil && okW {
									e := &termEnv{hook: h}
									hi, okW = e.int(win.Hi)
								}
								if !okW {
									ag.undec = "length of the ranged window is unknown"
									return
								}
								ln = hi - lo
							}
							if loopInstallsSpine(v, l) {
								ag.undec = "the ranged spine is re-installed inside the loop"
								return
							}
							if l.Key == nil {
								iterate(li+1, lvars)
								return
							}
							for k := int64(0); k < ln; k++ {
								nv := map[types.Object]int64{}
								for a, b := range lvars {
									nv[a] = b
								}
								nv[l.Key] = k
								iterate(li+1, nv)
							}
							return
						}
						its, why := c.loopIterations(l, h, 64)
						if why != "" {
							// Delete-style loops over a caller slice: the loop variable is only used to pick the free variadic element
							if freeVariadic {
								iterate(li+1, lvars)
								return
							}
							ag.undec = why
							return
						}
						for _, it := range its {
							nv := map[types.Object]int64{}
							for a, b := range lvars {
								nv[a] = b
							}
							for a, b := range it {
								nv[a] = b
							}
							iterate(li+1, nv)
						}
					}
					iterate(0, map[types.Object]int64{})
				}
				rec(0)
			}
		}
		for _, sh := range order {
			ag := byShape[sh]
			total++
			ob := c.Ob("C05.R2", name+"/"+sh, posOfNode(ag.acc.Node))
			switch {
			case ag.undec != "":
				ob.Undecided("cannot fold up to this access: %s", ag.undec)
			case ag.bad != "":
				ob.Fail("spine access can be out of its LENGTH (beyond len but within cap silently resurrects deleted elements; otherwise index out of range): %s", ag.bad)
			case ag.reached == 0:
				ob.Undecided("no folded input reaches this access")
			default:
				ob.Ok("within length on all %d folded inputs that reach it", ag.reached)
			}
		}
	}
	c.R.Floor("C05.R2", total, 10)
}

func loopInstallsSpine(v *sxView, l *LoopRec) bool {
	for _, p := range l.Iter {
		for _, s := range p.StepsOf("store") {
			if sel, ok := s.LHS.(TSel); ok {
				if _, ct := v.spineOf(TSel{X: sel.X, Field: sel.Field}); ct != nil {
					return true
				}
			}
		}
	}
	return false
}

// checkTermBounds evaluates the index / slice bounds of a spine access term against the length.
func checkTermBounds(c *Ctx, t Term, n int64, hook func(Term) (int64, bool)) string {
	switch x := t.(type) {
	case TIndex:
		e := &termEnv{hook: hook}
		val, ok := e.int(x.I)
		if !ok {
			return "index term outside the vocabulary: " + c.termStr(x.I)
		}
		if val < 0 || val >= n {
			return "index " + c.termStr(x.I) + " = " + itoa(int(val)) + " with length " + itoa(int(n))
		}
	case TSlice:
		lo, hi := int64(0), n
		if x.Lo != nil {
			e := &termEnv{hook: hook}
			val, ok := e.int(x.Lo)
			if !ok {
				return "slice bound outside the vocabulary: " + c.termStr(x.Lo)
			}
			lo = val
		}
		if x.Hi != nil {
			e := &termEnv{hook: hook}
			val, ok := e.int(x.Hi)
			if !ok {
				return "slice bound outside the vocabulary: " + c.termStr(x.Hi)
			}
			hi = val
		}
		if lo < 0 || lo > hi || hi > n {
			return "slice [" + itoa(int(lo)) + ":" + itoa(int(hi)) + "] with length " + itoa(int(n)) + " (Go only checks against capacity)"
		}
	}
	return ""
}

// writesList: the step writes list/object memory that existed before the call (store through the receiver, or a mutating call on self).
func (v *sxView) writesPreexisting(s Step) bool {
	switch s.Kind {
	case "store":
		root := s.LHS
		for {
			switch x := root.(type) {
			case TSel:
				root = x.X
				continue
			case TIndex:
				root = x.X
				continue
			case TDeref:
				root = x.X
				continue
			}
			break
		}
		return v.isSelf(root)
	case "call":
		if s.Call != nil && s.Call.Fun != nil && s.Call.Recv != nil && v.isSelf(s.Call.Recv) && mutatorNames[s.Call.Fun.Name()] {
			return true
		}
	}
	return false
}

func c05WriteBeforePanic(c *Ctx) {
	n := 0
	for _, name := range []string{"(*list).Insert", "(*list).Replace", "(*list).Get", "(*list).Delete", "(*list).Pop", "(*list).SubList", "(*list).Sort"} {
		fd := c.NeedDecl("C05.R3", name)
		if fd == nil {
			continue
		}
		n++
		ob := c.Ob("C05.R3", name, fd.Pos())
		paths, why := c.runPaths(fd)
		if why != "" {
			ob.Undecided("body outside the path vocabulary: %s", why)
			continue
		}
		v := c.view(fd)
		bad := ""
		var check func(ps []*Path, inLoop bool)
		check = func(ps []*Path, inLoop bool) {
			for _, p := range ps {
				if p.End == "panic" {
					for i, s := range p.Steps {
						// for panics raised inside a loop only the steps of the same iteration count (they follow the loop step)
						if inLoop {
							_ = i
						}
						if v.writesPreexisting(s) {
							bad = "a path that ends in a panic first performs " + c.stepStr(s)
						}
					}
				}
				for _, s := range p.Steps {
					if s.Kind == "loop" {
						check(s.Loop.Iter, true)
					}
				}
			}
		}
		check(paths, false)
		if bad != "" {
			ob.Fail("a list is modified before the operation panics: %s", bad)
		} else {
			ob.Ok("no path that ends in a panic contains a write to pre-existing list memory (within one iteration for Delete): a panicking single-index call leaves every list unchanged")
		}
	}
	c.R.Floor("C05.R3", n, 7)
}

func (c *Ctx) stepStr(s Step) string {
	switch s.Kind {
	case "store":
		return c.termStr(s.LHS) + " = " + c.termStr(s.RHS)
	case "call":
		if s.Call != nil {
			return c.termStr(*s.Call)
		}
	}
	return s.Kind
}

func c05Reference(c *Ctx) {
	n := 0
	if fd := c.NeedDecl("C05.R6", "(*list).Get"); fd != nil {
		n++
		ob := c.Ob("C05.R6", "(*list).Get", fd.Pos())
		paths, why := c.runPaths(fd)
		v := c.view(fd)
		ps := intParams(c, fd)
		good := why == "" && len(ps) == 1
		rets := 0
		for _, p := range paths {
			if p.End != "return" {
				continue
			}
			rets++
			if len(p.Vals) != 1 {
				good = false
				continue
			}
			el, ok := v.valueOf(p.Vals[0])
			if !ok {
				good = false
				continue
			}
			ix, ok := el.(TIndex)
			good = good && ok && v.isRecvSpine(ix.X) && isParamTerm(ix.I, ps[0])
		}
		ob.Check(good && rets > 0, "returns spine[index].getVal(): the identical nested container for containers (C19.R3), the value for scalars", "Get does not return spine[index].getVal()")
	}
	if fd := c.NeedDecl("C05.R6", "(*list).IndexOf"); fd != nil {
		n++
		ob := c.Ob("C05.R6", "(*list).IndexOf", fd.Pos())
		why := searchShape(c, fd, "key")
		if why == "" {
			ob.Ok("first index whose getVal() == value, else -1")
		} else {
			ob.Fail("IndexOf is not the first-match search over getVal(): %s", why)
		}
	}
	if fd := c.NeedDecl("C05.R6", "(*list).Contains"); fd != nil {
		n++
		ob := c.Ob("C05.R6", "(*list).Contains", fd.Pos())
		why := searchShape(c, fd, "true")
		if why == "" {
			ob.Ok("true exactly when some element's getVal() == value (containers by identity), false for the exhausted search")
		} else {
			ob.Fail("Contains is not the getVal()==value search: %s", why)
		}
	}
	c.R.Floor("C05.R6", n, 3)
}

func simplifyRet(p *Path) Term {
	if len(p.Vals) != 1 {
		return nil
	}
	return simplify(p.Vals[0])
}

// ---------------------------------------------------------------- C17

func init() {
	register(&Property{
		ID: "C17",
		Explanation: "Decided on the SX path normal form. Sort: every path that passes a positive kind test on element 0 (string, int or float wrapper) performs exactly: a typed slice view of the SAME kind of the receiver (selection decided by C14), a sort function of the trusted table applied to that slice, and the hand-over of NewListFrom(that slice)'s fresh spine to the RECEIVER; " +
			"the path on which no kind test succeeds panics without any write; every return is the registered ego. Multiset preservation = XSlice keeps every element of kind X (C14) + sort.* permutes (trusted) + NewListFrom copies element-wise (C12.R2). " +
			"Reverse: the loop header is simulated on integers for n = 0..9 and must swap exactly the floor(n/2) mirrored pairs (i, n-1-i), each once, by a true parallel swap on the receiver's spine, with no other write — the permutation i -> n-1-i, an involution. " +
			"Heterogeneous lists and the empty list for Sort are outside the property's domain.",
		Rules: []Rule{
			{ID: "C17.R1", Doc: "Sort: kind test on element 0 <-> typed slice of that kind <-> trusted sort function on that slice <-> NewListFrom(slice) spine handed to the receiver; no kind => panic before any write; fluent return", Run: c17Sort},
			{ID: "C17.R4", Doc: "the typed slice Sort starts from holds every element of that kind, in order (= C14 on StringSlice/IntSlice/FloatSlice)", Run: func(c *Ctx) {
				c.R.Floor("C17.R4", runAs(c, "C17.R4", c14Run, func(o *Obligation) bool {
					return strings.Contains(o.Construct, "(*list).StringSlice/") || strings.Contains(o.Construct, "(*list).IntSlice/") || strings.Contains(o.Construct, "(*list).FloatSlice/")
				}), 3)
			}},
			{ID: "C17.R3", Doc: "the rebuild through NewListFrom keeps every element: the From-constructor copies element-wise without filtering (= C12.R2)", Run: func(c *Ctx) {
				c.R.Floor("C17.R3", runAs(c, "C17.R3", c12R2, func(o *Obligation) bool {
					return strings.Contains(o.Construct, "NewListFrom/case []string") || strings.Contains(o.Construct, "NewListFrom/case []int") || strings.Contains(o.Construct, "NewListFrom/case []float64")
				}), 1)
			}},
			{ID: "C17.R2", Doc: "Reverse: swaps exactly the mirrored pairs (i, n-1-i), i < n/2 (header simulated for n=0..9), by a parallel swap on the receiver's spine; no other write", Run: c17Reverse},
		},
	})
}

var trustedSorts = map[string]string{"sort.Strings": "string", "sort.Ints": "int", "sort.Float64s": "float", "slices.Sort": "*"}

// kindTestOf: a condition term that tests the kind of an element: type-switch test or comma-ok assertion; returns operand and type.
func kindTestOf(t Term) (Term, types.Type, bool) {
	switch x := t.(type) {
	case TTypeIs:
		return x.X, x.To, true
	case TProj:
		if a, ok := x.X.(TAssert); ok && x.K == 1 {
			return a.X, a.To, true
		}
	}
	return nil, nil, false
}

func c17Sort(c *Ctx) {
	fd := c.NeedDecl("C17.R1", "(*list).Sort")
	if fd == nil {
		return
	}
	paths, why := c.runPathsWith(fd, func(x *SX) { x.KeepUnboxed = true }) // Sort dispatches on the wrapper of element 0
	if why != "" {
		c.Ob("C17.R1", "(*list).Sort", fd.Pos()).Undecided("body outside the path vocabulary: %s", why)
		return
	}
	v := c.view(fd)
	arms := map[string]bool{}
	nPanic := 0
	for i, p := range paths {
		// the positive kind test on element 0
		kind := ""
		badTest := ""
		for _, cd := range p.Conds() {
			op, T, ok := kindTestOf(cd.T)
			if !ok {
				badTest = "decision that is not a kind test: " + c.termStr(cd.T)
				continue
			}
			ix, isIx := op.(TIndex)
			k0, isC := int64(0), false
			if isIx {
				k0, isC = constInt(ix.I)
			}
			if !isIx || !v.isRecvSpine(ix.X) || !isC || k0 != 0 {
				badTest = "kind test is not on element 0 of the receiver"
			}
			if cd.Truth {
				kind = c.kindOfType(T)
				if _, isPtr := T.(*types.Pointer); !isPtr && (kind == "string" || kind == "int" || kind == "float") {
					badTest = "kind test is not on a wrapper type"
				}
			}
		}
		pname := "(*list).Sort/path#" + itoa(i+1)
		if kind != "" {
			pname = "(*list).Sort/kind " + kind
		}
		ob := c.Ob("C17.R1", pname, posOfNode(p.Node))
		if badTest != "" {
			ob.Fail("%s", badTest)
			continue
		}
		if kind != "string" && kind != "int" && kind != "float" && p.End == "panic" {
			kind = "" // element 0 recognised as a kind that is not sortable (a shared kind switch names them all): the rejecting arm
		}
		if kind == "" {
			// no kind matched: must panic without effects
			nPanic++
			bad := p.End != "panic"
			for _, s := range p.Steps {
				if v.writesPreexisting(s) {
					bad = true
				}
			}
			ob.Check(!bad, "a first element of another kind panics before anything is written", "when element 0 is neither string, int nor float the method does not panic before any write")
			continue
		}
		if kind != "string" && kind != "int" && kind != "float" {
			ob.Fail("arm for kind %s: only string, int and float lists are sortable", kind)
			continue
		}
		arms[kind] = true
		// effects: one trusted sort call on S; one store recv.spine = NewListFrom(S).(*list).spine
		var sortArg, handover Term
		var rebuild *LoopRec
		nSort, nStore, other := 0, 0, ""
		for _, s := range p.Effects() {
			switch s.Kind {
			case "call":
				if s.Call != nil && s.Call.Fun != nil {
					full := s.Call.Fun.FullName()
					if tk, ok := trustedSorts[full]; ok && len(s.Call.Args) == 1 && (tk == "*" || tk == kind) {
						nSort++
						sortArg = s.Call.Args[0]
						continue
					}
					if s.Call.Fun.Name() == "NewListFrom" || s.Call.Fun.Pkg() == c.Types && !mutatorNames[s.Call.Fun.Name()] {
						continue // constructor / observer calls are not effects on the receiver
					}
					other = "call of " + c.termStr(*s.Call)
				}
			case "store":
				if sel, ok := s.LHS.(TSel); ok && sel.Field == v.ct.Spine && v.isRecv(sel.X) {
					nStore++
					handover = s.RHS
					continue
				}
				other = "store " + c.termStr(s.LHS)
			case "loop":
				if rebuild == nil && nSort == 1 {
					rebuild = s.Loop // after the sort call: candidate for the element-wise rebuild of the spine
					continue
				}
				other = s.Kind
			default:
				other = s.Kind
			}
		}
		// the same decision on the spine model: after the path, the receiver's spine is parseVal of every entry of the sorted slice, in order
		rebuildFold := func() bool {
			if nSort != 1 || p.End != "return" || len(p.Vals) != 1 || !v.isEgo(p.Vals[0]) {
				return false
			}
			sc, ok := sortArg.(TCall)
			if !ok || sc.Fun == nil || sc.Recv == nil || !v.isSelf(sc.Recv) || len(sc.Args) != 0 || c14Family(sc.Fun.Name()) != "Slice" {
				return false
			}
			st, _ := sc.Fun.Type().(*types.Signature).Results().At(0).Type().Underlying().(*types.Slice)
			if st == nil || c.kindOfType(st.Elem()) != kind {
				return false
			}
			bad, undec := c.foldBuildInto(v, p, sortArg, nil, true, true, true, kind, wantFrom)
			return bad == "" && undec == ""
		}
		if other != "" || nSort != 1 || nStore != 1 {
			if rebuildFold() {
				ob.Ok("%s: typed slice of that kind -> trusted sort -> on the spine model (1..3 elements) the receiver's spine is parseVal of every entry of the sorted slice, in order; returns ego", kind)
				continue
			}
			ob.Fail("the %s arm is not exactly: one trusted sort call, one hand-over of the receiver's spine (found %d sort calls, %d spine stores%s): non-decreasing order or in-place rearrangement is not guaranteed", kind, nSort, nStore, map[bool]string{true: ", " + other, false: ""}[other != ""])
			continue
		}
		// S = self.XSlice() of the same kind
		sc, ok := sortArg.(TCall)
		good := ok && sc.Fun != nil && sc.Recv != nil && v.isSelf(sc.Recv) && len(sc.Args) == 0 && c14Family(sc.Fun.Name()) == "Slice"
		if good {
			st, _ := sc.Fun.Type().(*types.Signature).Results().At(0).Type().Underlying().(*types.Slice)
			good = st != nil && c.kindOfType(st.Elem()) == kind
		}
		if !good {
			ob.Fail("the sorted slice is not the typed slice view of kind %s of the receiver (found %s): other elements are lost or the list changes kind", kind, c.termStr(sortArg))
			continue
		}
		// hand-over = spine of NewListFrom(S), or the same thing spelled out: a fresh field slice filled in order with parseVal(item) of S
		if rebuild != nil {
			good = false
			if lv, ok := handover.(TLoop); ok && lv.ID == rebuild.ID && rebuild.Range != nil && sameTerm(rebuild.Over, sortArg) && rebuild.Value != nil &&
				len(rebuild.Iter) == 1 && len(rebuild.Iter[0].Conds()) == 0 && len(rebuild.Iter[0].Effects()) == 0 && (rebuild.Iter[0].End == "fall" || rebuild.Iter[0].End == "continue") {
				acc := lv.Obj
				if mk, ok := rebuild.Init[acc].(TBuiltin); ok && mk.Name == "make" && len(mk.Args) >= 1 {
					if k, isK := constInt(mk.Args[0]); isK && k == 0 {
						if ap, ok := rebuild.Iter[0].Env[acc].(TBuiltin); ok && ap.Name == "append" && len(ap.Args) == 2 && sameTerm(ap.Args[0], TLoop{acc, rebuild.ID}) {
							if pv, ok := ap.Args[1].(TCall); ok && pv.Fun != nil && pv.Fun.Name() == "parseVal" && pv.Fun.Pkg() == c.Types && len(pv.Args) == 1 && isParamTerm(pv.Args[0], rebuild.Value) {
								good = true
							}
						}
					}
				}
			}
			if !good && rebuildFold() {
				ob.Ok("%s: typed slice of that kind -> trusted sort -> on the spine model (1..3 elements) the receiver's spine is parseVal of every entry of the sorted slice, in order; returns ego", kind)
				continue
			}
			if !good {
				ob.Fail("the sorted slice is not rebuilt element-wise (fresh slice; append(parseVal(item)) for every item in order) and installed as the RECEIVER's spine")
				continue
			}
			if p.End != "return" || len(p.Vals) != 1 || !v.isEgo(p.Vals[0]) {
				ob.Fail("the arm does not return the registered ego")
				continue
			}
			ob.Ok("%s: %s() -> trusted sort -> receiver.spine = fresh slice of parseVal(item) for every item in order; returns ego", kind, sc.Fun.Name())
			continue
		}
		hb, hct := v.spineOf(handover)
		good = hct != nil && hct.IsList
		if good {
			if a, ok := hb.(TAssert); ok {
				hb = a.X
			}
			nc, ok := hb.(TCall)
			// sort.IntSlice(xs) and []int(…) of it name the same slice
			bare := func(t Term) Term {
				for {
					cv, ok := t.(TConv)
					if !ok {
						return t
					}
					if _, isSl := cv.To.Underlying().(*types.Slice); !isSl {
						return t
					}
					t = cv.X
				}
			}
			good = ok && nc.Fun != nil && nc.Fun.Name() == "NewListFrom" && len(nc.Args) == 1 && sameTerm(bare(nc.Args[0]), bare(sortArg))
		}
		if !good {
			ob.Fail("the sorted slice is not rebuilt with NewListFrom(slice) and installed as the RECEIVER's spine (found %s)", c.termStr(handover))
			continue
		}
		if p.End != "return" || len(p.Vals) != 1 || !v.isEgo(p.Vals[0]) {
			ob.Fail("the arm does not return the registered ego")
			continue
		}
		ob.Ok("%s: %s() -> %s -> receiver.spine = NewListFrom(slice).spine; returns ego", kind, sc.Fun.Name(), "trusted sort")
	}
	c.Ob("C17.R1", "(*list).Sort/arms", fd.Pos()).Check(len(arms) == 3 && nPanic >= 1, "paths for string, int, float; every other kind panics", "expected sorting paths for exactly string, int, float plus one panicking path")
}

func c17Reverse(c *Ctx) { reverseRule(c, "C17.R2") }

func reverseRule(c *Ctx, R string) {
	fd := c.NeedDecl(R, "(*list).Reverse")
	if fd == nil {
		return
	}
	ob := c.Ob(R, "(*list).Reverse/index-set", fd.Pos())
	paths, why := c.runPaths(fd)
	if why != "" {
		ob.Undecided("body outside the path vocabulary: %s", why)
		return
	}
	v := c.view(fd)
	if len(paths) != 1 {
		ob.Fail("Reverse has %d paths; expected a single path with one swap loop", len(paths))
		return
	}
	p := paths[0]
	var loop *LoopRec
	for _, s := range p.Steps {
		switch s.Kind {
		case "loop":
			if loop != nil {
				ob.Fail("more than one loop")
				return
			}
			loop = s.Loop
		case "call":
			if s.Call != nil && s.Call.Fun != nil && s.Call.Fun.FullName() == "slices.Reverse" && len(s.Call.Args) == 1 && v.isRecvSpine(s.Call.Args[0]) {
				ob.Ok("slices.Reverse on the receiver's spine (trusted table)")
				return
			}
			ob.Fail("unexpected call %s", c.termStr(*s.Call))
			return
		case "store":
			ob.Fail("write outside the swap loop")
			return
		}
	}
	if loop == nil || loop.For == nil {
		ob.Undecided("Reverse is neither one counted loop nor slices.Reverse(spine)")
		return
	}
	if len(loop.Iter) != 1 || loop.Iter[0].End != "fall" || len(loop.Iter[0].Conds()) != 0 {
		ob.Fail("the swap loop body is not straight-line")
		return
	}
	it := loop.Iter[0]
	stores := it.StepsOf("store")
	sob := c.Ob(R, "(*list).Reverse/swap", loop.Node.Pos())
	if len(stores) != 2 || len(it.Effects()) != 2 {
		sob.Fail("the loop body does not consist of exactly the two element stores of a swap")
		return
	}
	l0, ok0 := stores[0].LHS.(TIndex)
	l1, ok1 := stores[1].LHS.(TIndex)
	r0, ok2 := stores[0].RHS.(TIndex)
	r1, ok3 := stores[1].RHS.(TIndex)
	if !ok0 || !ok1 || !ok2 || !ok3 || !v.isRecvSpine(l0.X) || !v.isRecvSpine(l1.X) || !v.isRecvSpine(r0.X) || !v.isRecvSpine(r1.X) ||
		!sameTerm(l0.I, r1.I) || !sameTerm(l1.I, r0.I) || r0.Epoch != r1.Epoch {
		sob.Fail("the swap is not the parallel assignment v[a], v[b] = v[b], v[a] on the receiver's spine (two sequential assignments overwrite one element)")
		return
	}
	bad, undec := "", ""
	cases := 0
	for n := int64(0); n <= 9 && bad == "" && undec == ""; n++ {
		hook := v.intHook(n, nil, nil)
		its, why := c.loopIterations(loop, hook, 64)
		if why != "" {
			undec = why
			break
		}
		visited := map[int64]bool{}
		for _, st := range its {
			h := func(t Term) (int64, bool) {
				switch x := t.(type) {
				case TLoop:
					if val, ok := st[x.Obj]; ok {
						return val, true
					}
				case TVar:
					if val, ok := st[x.Obj]; ok {
						return val, true
					}
				}
				return hook(t)
			}
			ea, eb := &termEnv{hook: h}, &termEnv{hook: h}
			a, okA := ea.int(l0.I)
			b, okB := eb.int(l1.I)
			if !okA || !okB {
				undec = "swap indices outside the vocabulary: " + c.termStr(l0.I) + ", " + c.termStr(l1.I)
				break
			}
			cases++
			if a > b {
				a, b = b, a
			}
			if a+b != n-1 || a < 0 || b >= n || a == b {
				bad = "n=" + itoa(int(n)) + ": swaps positions " + itoa(int(a)) + " and " + itoa(int(b)) + ", which are not a mirrored pair (a + b = n-1, a < b)"
				break
			}
			if visited[a] {
				bad = "n=" + itoa(int(n)) + ": pair (" + itoa(int(a)) + "," + itoa(int(b)) + ") is swapped twice"
				break
			}
			visited[a] = true
		}
		if bad == "" && undec == "" && int64(len(visited)) != n/2 {
			bad = "n=" + itoa(int(n)) + ": " + itoa(len(visited)) + " mirrored pairs are swapped, expected " + itoa(int(n/2)) + " (some element stays in place that must move)"
		}
	}
	switch {
	case undec != "":
		ob.Undecided("%s", undec)
	case bad != "":
		ob.Fail("%s", bad)
	default:
		ob.Ok("for n = 0..9 the loop swaps exactly the floor(n/2) mirrored pairs (i, n-1-i), each once (%d swaps folded)", cases)
		sob.Ok("parallel swap v[a], v[b] = v[b], v[a] on the receiver's spine; nothing else is written")
	}
	c.Ob(R, "(*list).Reverse/return", fd.Pos()).Check(p.End == "return" && len(p.Vals) == 1 && v.isEgo(p.Vals[0]), "fluent return", "Reverse does not return ego")
}

// c05ListOf: NewListOf(value, count) is executed on the folded spine for count = 0..3: the list it returns must show exactly count
// cells, all of them the ONE field parseVal(value) — and that conversion must have been evaluated before the filling loop (a conversion
// inside the loop, or a per-slot Add, creates a distinct nested container per slot when the value is a native slice or map).
func c05ListOf(c *Ctx) {
	fd := c.NeedDecl("C05.R9", "NewListOf")
	if fd == nil {
		return
	}
	ob := c.Ob("C05.R9", "NewListOf", fd.Pos())
	paths, why := c.runPaths(fd)
	if why != "" {
		ob.Undecided("body outside the path vocabulary: %s", why)
		return
	}
	var value, count types.Object
	for _, f := range fd.Type.Params.List {
		for _, nm := range f.Names {
			o := c.Info.Defs[nm]
			if isIntType(o.Type()) {
				count = o
			} else {
				value = o
			}
		}
	}
	if value == nil || count == nil {
		ob.Undecided("NewListOf does not take (value, count)")
		return
	}
	v := c.view(fd)
	if v.ct == nil {
		for _, ct := range c.Inv().Conts {
			if ct.IsList {
				v.ct = ct
			}
		}
	}
	for n := int64(0); n <= 3; n++ {
		r := &seqRun{c: c, v: v, ints: map[types.Object]int64{count: n}, intArgs: map[types.Object][]int64{}, nVals: map[types.Object]int{}, bind: map[types.Object]string{}, loopInt: map[int]map[types.Object]int64{}}
		r.cur = &seqState{spine: map[string]seqSlice{}, arrs: map[int][]string{}}
		r.snapshot(-1 << 30)
		var sel *Path
		for _, p := range paths {
			firstLoop := -1
			for i, st := range p.Steps {
				if st.Kind == "loop" {
					firstLoop = i
					break
				}
			}
			if ok, decided := r.feasible(p, firstLoop); decided && ok && p.End == "return" {
				if firstLoop < 0 {
					if ok2, _ := r.feasible(p, -1); !ok2 {
						continue
					}
				}
				sel = p
				break
			}
		}
		if r.why != "" || sel == nil || len(sel.Vals) != 1 {
			ob.Undecided("count=%d: no returning path the spine model can follow %s", n, r.why)
			return
		}
		r.exec(sel.Steps)
		if r.panic != "" {
			ob.Fail("count=%d: %s", n, r.panic)
			return
		}
		if r.why != "" {
			ob.Undecided("count=%d: %s", n, r.why)
			return
		}
		if !strings.HasPrefix(r.containerKey(sel.Vals[0]), "new:") {
			ob.Fail("the result is not a list created by this call")
			return
		}
		rs, ok := r.spineOfContainer(sel.Vals[0], -1)
		if !ok {
			ob.Undecided("count=%d: %s", n, r.why)
			return
		}
		var want []string
		for i := int64(0); i < n; i++ {
			want = append(want, "pv($"+value.Name()+")")
		}
		if got := r.cells(r.cur, rs); strings.Join(got, ",") != strings.Join(want, ",") {
			ob.Fail("count=%d: the list shows [%s], expected %d times the one element parseVal(%s) (a conversion per slot yields distinct nested containers for a native slice or map value)", n, strings.Join(got, ","), n, value.Name())
			return
		}
	}
	// the conversion is evaluated before any loop: no parseVal(value) term inside a loop carries an epoch of that loop
	for _, p := range paths {
		for _, st := range p.Steps {
			if st.Kind != "loop" {
				continue
			}
			bad := false
			for _, ip := range st.Loop.Iter {
				for _, is := range ip.Steps {
					for _, t := range []Term{is.Cond.T, is.LHS, is.RHS} {
						collectSubterms(t, func(u Term) {
							if pv, ok := u.(TCall); ok && pv.Fun != nil && pv.Fun.Name() == "parseVal" && pv.Fun.Pkg() == c.Types && pv.Epoch >= st.Loop.HeadEpoch {
								bad = true
							}
						})
					}
				}
			}
			if bad {
				ob.Fail("parseVal(value) is evaluated inside the loop: a native slice or map value becomes a distinct container in every slot instead of one shared element")
				return
			}
		}
	}
	ob.Ok("value normalised once before the loop; the returned list shows exactly count times that one field (count = 0..3 folded on the spine model)")
}
