package main

// C05 (list as an ordered sequence: guard domains, safe indexing, write-before-panic, ownership) and C17 (Sort / Reverse).

import (
	"go/ast"
	"go/token"
	"go/types"
	"strings"
)

func intParams(c *Ctx, fd *ast.FuncDecl) []types.Object {
	var out []types.Object
	if fd.Type.Params == nil {
		return nil
	}
	for _, f := range fd.Type.Params.List {
		t := c.typeOf(f.Type)
		if _, variadic := f.Type.(*ast.Ellipsis); variadic {
			continue
		}
		for _, nm := range f.Names {
			if b, ok := t.Underlying().(*types.Basic); ok && b.Info()&types.IsInteger != 0 {
				out = append(out, c.Info.Defs[nm])
			}
		}
	}
	return out
}

func smallInputs(n int64, consts []int64) []int64 {
	set := map[int64]bool{}
	for v := -n - 3; v <= n+3; v++ {
		set[v] = true
	}
	for _, k := range consts {
		for d := int64(-1); d <= 1; d++ {
			set[k+d] = true
		}
	}
	for _, v := range []int64{-1 << 40, 1 << 40} {
		set[v] = true
	}
	var out []int64
	for v := range set {
		out = append(out, v)
	}
	sortInt64(out)
	return out
}

func init() {
	register(&Property{
		ID: "C05",
		Explanation: "Whole-model conformance over all programs is beyond static reach. Decided clauses: (R1) the panic guards of Insert/Replace/Get/Delete/TypeOf/SubList/Pop, folded as pure integer preludes over a break-point set of (n, arguments), equal the documented domains — equality, not inclusion; " +
			"(R2) SAFE-INDEX: every index/slice expression on a spine in the package (floor 17) is reached only with 0 <= i <= len-1 / 0 <= a <= b <= len — by LENGTH, never by capacity, so no stale element beyond len can be resurrected; " +
			"(R3) in the single-index mutators no write effect (E3) precedes an explicit panic; (R4) OWN: no two containers share a backing array; (R6) Get returns spine[i].getVal(), IndexOf/Contains compare getVal() with ==; (R7) observers are write-free. " +
			"What the sequence model predicts beyond these clauses (e.g. the exact element order after Insert/Delete — the segment algebra R5 of DESIGN.md is NOT built) is not covered.",
		Rules: []Rule{
			{ID: "C05.R1", Doc: "guard domains equal the documented ones: Insert [0,n]; Replace/Get/Delete [0,n-1]; Pop = Delete(n-1); TypeOf defined exactly on [0,n-1]; SubList per its end<=0 rule", Run: c05Domains},
			{ID: "C05.R2", Doc: "SAFE-INDEX: every spine index/slice in the package lies within the current length on every input that reaches it", Run: c05SafeIndex},
			{ID: "C05.R3", Doc: "no write effect precedes an explicit panic in Insert, Replace, Get, Delete, Pop, SubList", Run: c05WriteBeforePanic},
			{ID: "C05.R4", Doc: "OWN: no two containers ever share a backing array (package-wide)", Run: func(c *Ctx) { c.R.Floor("C05.R4", ownRule(c, "C05.R4"), 14) }},
			{ID: "C05.R6", Doc: "reference semantics: Get returns spine[index].getVal(); IndexOf/Contains compare getVal() with ==", Run: c05Reference},
			{ID: "C05.R7", Doc: "PURE: the observers (and SubList, Concat) write nothing pre-existing", Run: func(c *Ctx) {
				var names []string
				for _, n := range []string{"Count", "Empty", "Get", "GetObject", "GetList", "GetString", "GetBool", "GetInt", "GetFloat", "TypeOf", "Slice", "Contains", "IndexOf", "SubList", "Concat"} {
					names = append(names, "(*list)."+n)
				}
				c.R.Floor("C05.R7", pureRule(c, "C05.R7", names), 15)
			}},
		},
	})
}

type domSpec struct {
	name  string
	nargs int
	spec  func(n int64, p []int64) bool // must panic?
	doc   string
}

func subListEff(n, end int64) int64 {
	if end <= 0 {
		return n + end
	}
	return end
}

func c05Domains(c *Ctx) {
	specs := []domSpec{
		{"(*list).Insert", 1, func(n int64, p []int64) bool { return p[0] < 0 || p[0] > n }, "0..n"},
		{"(*list).Replace", 1, func(n int64, p []int64) bool { return p[0] < 0 || p[0] >= n }, "0..n-1"},
		{"(*list).Get", 1, func(n int64, p []int64) bool { return p[0] < 0 || p[0] >= n }, "0..n-1"},
		{"(*list).SubList", 2, func(n int64, p []int64) bool {
			start, end := p[0], p[1]
			return end > n || end < -n || start < 0 || start > subListEff(n, end)
		}, "end in -n..n, 0 <= start <= effective end"},
	}
	cnt := 0
	for _, sp := range specs {
		fd := c.NeedDecl("C05.R1", sp.name)
		if fd == nil {
			continue
		}
		cnt++
		ob := c.Ob("C05.R1", sp.name+"/domain", fd.Pos())
		ps := intParams(c, fd)
		if len(ps) != sp.nargs {
			ob.Undecided("unexpected integer parameters")
			continue
		}
		consts := c.intConstantsIn(&ast.ParenExpr{X: &ast.FuncLit{Type: fd.Type, Body: fd.Body}})
		bad, cases, undec := "", 0, ""
		for n := int64(0); n <= 5 && bad == "" && undec == ""; n++ {
			vals := smallInputs(n, consts)
			var rec func(k int, cur []int64)
			rec = func(k int, cur []int64) {
				if bad != "" || undec != "" {
					return
				}
				if k == sp.nargs {
					vars := map[types.Object]int64{}
					for i, p := range ps {
						vars[p] = cur[i]
					}
					out, _, why := c.foldFunc(fd, foldCase{N: n, Vars: vars}, nil)
					cases++
					if out == foUndec {
						undec = why
						return
					}
					want := sp.spec(n, cur)
					if (out == foPanic) != want {
						bad = "n=" + itoa(int(n)) + " args=" + fmtInts(cur) + ": panics=" + boolStr(out == foPanic) + ", documented domain says " + boolStr(want)
					}
					return
				}
				for _, v := range vals {
					rec(k+1, append(cur, v))
				}
			}
			rec(0, nil)
		}
		switch {
		case undec != "":
			ob.Undecided("guard prelude cannot be folded: %s", undec)
		case bad != "":
			ob.Fail("panic guard differs from the documented domain (%s): %s", sp.doc, bad)
		default:
			ob.Ok("panics exactly outside the documented domain %s (guard prelude folded over %d (n, argument) combinations)", sp.doc, cases)
		}
	}
	// Delete: per iteration, guard on the current index against the current length
	if fd := c.NeedDecl("C05.R1", "(*list).Delete"); fd != nil {
		cnt++
		c05Delete(c, fd)
	}
	// TypeOf: reaches its kind switch exactly on [0, n-1]
	if fd := c.NeedDecl("C05.R1", "(*list).TypeOf"); fd != nil {
		cnt++
		ob := c.Ob("C05.R1", "(*list).TypeOf/domain", fd.Pos())
		ts := findTypeSwitch(fd.Body)
		ps := intParams(c, fd)
		if ts == nil || len(ps) != 1 {
			ob.Undecided("no kind switch / unexpected parameters")
		} else {
			bad, undec := "", ""
			for n := int64(0); n <= 5 && bad == "" && undec == ""; n++ {
				for _, v := range smallInputs(n, nil) {
					out, _, why := c.foldFunc(fd, foldCase{N: n, Vars: map[types.Object]int64{ps[0]: v}}, ts)
					if out == foUndec {
						undec = why
						break
					}
					want := v >= 0 && v < n
					if (out == foReach) != want {
						bad = "n=" + itoa(int(n)) + " index=" + itoa(int(v)) + ": kind switch reached=" + boolStr(out == foReach) + ", expected " + boolStr(want)
						break
					}
					if out == foPanic {
						bad = "TypeOf panics for index " + itoa(int(v))
						break
					}
				}
			}
			switch {
			case undec != "":
				ob.Undecided("%s", undec)
			case bad != "":
				ob.Fail("%s", bad)
			default:
				ob.Ok("the kind switch is reached exactly for 0 <= index <= n-1; everything else falls to TypeUndefined; no panic")
			}
		}
	}
	// Pop = Delete(Count()-1)
	if fd := c.NeedDecl("C05.R1", "(*list).Pop"); fd != nil {
		cnt++
		ob := c.Ob("C05.R1", "(*list).Pop", fd.Pos())
		r := singleReturn(fd.Body)
		good := r != nil && len(r.Results) == 1
		if good {
			call, ok := unparen(r.Results[0]).(*ast.CallExpr)
			good = ok && len(call.Args) == 1 && !call.Ellipsis.IsValid()
			if good {
				sel, ok := unparen(call.Fun).(*ast.SelectorExpr)
				good = ok && c.isSelf(fd, sel.X) && c.callee(call) != nil && c.callee(call).Name() == "Delete"
				for n := int64(0); n <= 3 && good; n++ {
					ev := &evalEnv{c: c, hook: func(e ast.Expr) (int64, bool) {
						if c.isCountOfRecv(fd, e) {
							return n, true
						}
						return 0, false
					}}
					v, ok := ev.int(call.Args[0])
					good = ok && v == n-1
				}
			}
		}
		ob.Check(good, "Pop = self.Delete(count-1): panics exactly on the empty list (index -1), otherwise removes the last element", "Pop is not `return self.Delete(count - 1)`")
	}
	c.R.Floor("C05.R1", cnt, 7)
}

func fmtInts(a []int64) string {
	var s []string
	for _, v := range a {
		s = append(s, itoa(int(v)))
	}
	return "(" + strings.Join(s, ",") + ")"
}

// deleteShape finds, in Delete, the variadic parameter, the loop, the per-iteration index variable and the write statement.
func deleteShape(c *Ctx, fd *ast.FuncDecl) (loop *ast.ForStmt, idxVar types.Object, write ast.Stmt, variadic types.Object) {
	for _, f := range fd.Type.Params.List {
		if _, ok := f.Type.(*ast.Ellipsis); ok && len(f.Names) == 1 {
			variadic = c.Info.Defs[f.Names[0]]
		}
	}
	for _, s := range fd.Body.List {
		if fs, ok := s.(*ast.ForStmt); ok && loop == nil {
			loop = fs
		}
	}
	if loop == nil {
		return
	}
	for _, s := range loop.Body.List {
		if as, ok := s.(*ast.AssignStmt); ok && len(as.Lhs) == 1 && len(as.Rhs) == 1 {
			if ix, ok := unparen(as.Rhs[0]).(*ast.IndexExpr); ok && c.obj(ix.X) == variadic && variadic != nil && as.Tok == token.DEFINE {
				idxVar = c.obj(as.Lhs[0])
			}
			if c.isRecvSpine(fd, as.Lhs[0]) {
				write = s
			}
		}
	}
	return
}

func (c *Ctx) foldDelete(fd *ast.FuncDecl, loop *ast.ForStmt, idxVar types.Object, variadic types.Object, n, index int64, target ast.Node) (string, *evalEnv, string) {
	h, ok := c.forHeader(loop)
	if !ok {
		return foUndec, nil, "loop header outside the vocabulary"
	}
	ev := &evalEnv{c: c, vars: map[types.Object]int64{idxVar: index, h.Var: 0}}
	ev.hook = func(e ast.Expr) (int64, bool) {
		if c.isCountOfRecv(fd, e) {
			return n, true
		}
		if call, ok := e.(*ast.CallExpr); ok && c.isBuiltin(call, "len") && len(call.Args) == 1 && c.obj(call.Args[0]) == variadic {
			return 1, true // a single-index call
		}
		return 0, false
	}
	f := &folder{c: c, fd: fd, ev: ev, target: target}
	out := f.run(fd.Body.List)
	if out == "" {
		out = foSkip
	}
	return out, ev, f.why
}

func c05Delete(c *Ctx, fd *ast.FuncDecl) {
	ob := c.Ob("C05.R1", "(*list).Delete/domain", fd.Pos())
	loop, idxVar, write, variadic := deleteShape(c, fd)
	if loop == nil || idxVar == nil || write == nil || variadic == nil {
		ob.Undecided("Delete is not a loop over its variadic indexes with a per-iteration index and one spine update")
		return
	}
	h, ok := c.forHeader(loop)
	if !ok || h.Step != -1 {
		ob.Fail("indexes are not processed in descending position order (after sorting, deleting from the back keeps the remaining indexes valid)")
		return
	}
	bad, undec := "", ""
	for n := int64(0); n <= 5 && bad == "" && undec == ""; n++ {
		for _, v := range smallInputs(n, nil) {
			out, _, why := c.foldDelete(fd, loop, idxVar, variadic, n, v, write)
			if out == foUndec {
				undec = why
				break
			}
			want := v < 0 || v >= n
			if (out == foPanic) != want || (!want && out != foReach) {
				bad = "n=" + itoa(int(n)) + " index=" + itoa(int(v)) + ": outcome " + out + ", documented domain 0..n-1 says panic=" + boolStr(want)
				break
			}
		}
	}
	switch {
	case undec != "":
		ob.Undecided("%s", undec)
	case bad != "":
		ob.Fail("Delete's guard differs from the documented domain: %s", bad)
	default:
		ob.Ok("per iteration: panics exactly when the index lies outside 0..n-1 of the CURRENT length, otherwise reaches the removal")
	}
}

// ---------------------------------------------------------------- SAFE-INDEX

type spineSite struct {
	fd   *ast.FuncDecl
	expr ast.Expr // *ast.IndexExpr or *ast.SliceExpr
	base ast.Expr
	ct   *Cont
}

func spineSites(c *Ctx) []spineSite {
	var out []spineSite
	for _, name := range c.DeclNames() {
		fd := c.Decl(name)
		ast.Inspect(fd.Body, func(n ast.Node) bool {
			switch x := n.(type) {
			case *ast.IndexExpr:
				if b, ct := c.spineBase(x.X); ct != nil && ct.IsList {
					out = append(out, spineSite{fd, x, b, ct})
				}
			case *ast.SliceExpr:
				if b, ct := c.spineBase(x.X); ct != nil && ct.IsList {
					out = append(out, spineSite{fd, x, b, ct})
				}
			}
			return true
		})
	}
	return out
}

// enclosing statements
func enclosingLoops(fd *ast.FuncDecl, target ast.Node) (ranges []*ast.RangeStmt, fors []*ast.ForStmt) {
	ast.Inspect(fd.Body, func(n ast.Node) bool {
		switch x := n.(type) {
		case *ast.RangeStmt:
			if containsNode(x.Body, target) {
				ranges = append(ranges, x)
			}
		case *ast.ForStmt:
			if containsNode(x.Body, target) {
				fors = append(fors, x)
			}
		}
		return true
	})
	return
}

// lengthLinked: the list held in variable v has, at the site, the same length as the receiver:
// created with make([]field, count(recv)), or guarded by `count(recv) != count(v) => return`.
func lengthLinked(c *Ctx, fd *ast.FuncDecl, v types.Object, ct *Cont) string {
	why := ""
	ast.Inspect(fd.Body, func(n ast.Node) bool {
		switch x := n.(type) {
		case *ast.AssignStmt:
			if len(x.Lhs) == 1 && len(x.Rhs) == 1 && c.obj(x.Lhs[0]) == v && x.Tok == token.DEFINE {
				ast.Inspect(x.Rhs[0], func(m ast.Node) bool {
					if call, ok := m.(*ast.CallExpr); ok && c.isBuiltin(call, "make") && len(call.Args) == 2 && c.isCountOfRecv(fd, call.Args[1]) {
						why = "created with make(spine, count of the receiver)"
					}
					return true
				})
			}
		case *ast.IfStmt:
			for _, d := range splitOr(x.Cond) {
				be, ok := unparen(d).(*ast.BinaryExpr)
				if !ok || be.Op != token.NEQ || !blockTerminates(c, x.Body) {
					continue
				}
				if (c.isCountOfRecv(fd, be.X) && c.isCountOfVar(be.Y, v, ct)) || (c.isCountOfRecv(fd, be.Y) && c.isCountOfVar(be.X, v, ct)) {
					why = "lengths compared equal by the guard " + exprStr(d) + " => return"
				}
			}
		}
		return true
	})
	return why
}

func c05SafeIndex(c *Ctx) {
	sites := spineSites(c)
	c.R.Floor("C05.R2", len(sites), 17)
	perFn := map[string]int{}
	for _, s := range sites {
		name := declName(s.fd)
		perFn[name]++
		ob := c.Ob("C05.R2", name+"/"+exprStr(s.expr)+"#"+itoa(perFn[name]), s.expr.Pos())
		recv := c.recvObj(s.fd)
		baseObj := c.obj(s.base)
		ranges, fors := enclosingLoops(s.fd, s.expr)
		// Case A: index is the key of an enclosing range over a list spine
		if ix, ok := s.expr.(*ast.IndexExpr); ok {
			done := false
			for _, rs := range ranges {
				rb, rct := c.spineBase(rs.X)
				if rct == nil || rs.Key == nil || c.obj(ix.Index) != c.obj(rs.Key) || c.obj(rs.Key) == nil {
					continue
				}
				if writesVar(c, rs.Body, c.obj(rs.Key)) {
					continue
				}
				if c.obj(rb) == baseObj {
					if spineShrinksIn(c, s.fd, rs.Body, baseObj) {
						ob.Fail("the spine is re-sliced inside the loop that indexes it by its range key")
					} else {
						ob.Ok("index is the key of `range` over the same spine: 0 <= i < len")
					}
					done = true
				} else if c.obj(rb) == recv && baseObj != nil {
					if why := lengthLinked(c, s.fd, baseObj, s.ct); why != "" {
						ob.Ok("index is the key of `range` over the receiver's spine and the indexed list has the same length (%s)", why)
					} else {
						ob.Fail("a second list is indexed by the receiver's range key without a guard that both have the same length: index out of range when it is shorter")
					}
					done = true
				}
			}
			if done {
				continue
			}
		}
		if baseObj != recv || recv == nil {
			ob.Undecided("index/slice on the spine of %s is not covered by a range key or a length link", exprStr(s.base))
			continue
		}
		// Case B: fold the integer prelude
		ps := intParams(c, s.fd)
		var loopVars []types.Object
		for _, fs := range fors {
			if h, ok := c.forHeader(fs); ok {
				loopVars = append(loopVars, h.Var)
			} else {
				loopVars = nil
				ob.Undecided("enclosing loop header outside the vocabulary")
				break
			}
		}
		if len(fors) > 0 && loopVars == nil {
			continue
		}
		isDelete := false
		var dLoop *ast.ForStmt
		var dIdx, dVar types.Object
		if l, iv, w, vv := deleteShape(c, s.fd); l != nil && iv != nil && w != nil && vv != nil && containsNode(l, s.expr) {
			isDelete, dLoop, dIdx, dVar = true, l, iv, vv
		}
		nMin := int64(0)
		if isSortLike(c, s.fd) {
			nMin = 1 // precondition from the property text: Sort only on non-empty lists (C17)
		}
		reached, bad, undec := 0, "", ""
		for n := nMin; n <= 5 && bad == "" && undec == ""; n++ {
			vals := smallInputs(n, nil)
			inputs := append(append([]types.Object{}, ps...), loopVars...)
			if isDelete {
				inputs = []types.Object{dIdx}
			}
			var rec func(k int, vars map[types.Object]int64)
			rec = func(k int, vars map[types.Object]int64) {
				if bad != "" || undec != "" {
					return
				}
				if k == len(inputs) {
					var out, why string
					var ev *evalEnv
					if isDelete {
						out, ev, why = c.foldDelete(s.fd, dLoop, dIdx, dVar, n, vars[dIdx], s.expr)
					} else {
						cp := map[types.Object]int64{}
						for a, b := range vars {
							cp[a] = b
						}
						out, ev, why = c.foldFunc(s.fd, foldCase{N: n, Vars: cp}, s.expr)
					}
					switch out {
					case foUndec:
						undec = why
					case foReach:
						reached++
						if msg := checkBounds(c, ev, s.expr, n); msg != "" {
							bad = "n=" + itoa(int(n)) + " inputs=" + fmtVars(inputs, vars) + ": " + msg
						}
					}
					return
				}
				for _, v := range vals {
					if v < -8 || v > 9 {
						if len(inputs) > 1 {
							continue // keep the product small: far values only matter for single guards
						}
					}
					vars[inputs[k]] = v
					rec(k+1, vars)
				}
			}
			rec(0, map[types.Object]int64{})
		}
		switch {
		case undec != "":
			ob.Undecided("prelude cannot be folded up to this access: %s", undec)
		case bad != "":
			ob.Fail("spine access can be out of its LENGTH (beyond len but within cap silently resurrects deleted elements; otherwise index out of range): %s", bad)
		case reached == 0:
			ob.Undecided("no folded input reaches this access")
		default:
			ob.Ok("within length on all %d folded inputs that reach it", reached)
		}
	}
}

func fmtVars(order []types.Object, vars map[types.Object]int64) string {
	var s []string
	for _, o := range order {
		s = append(s, o.Name()+"="+itoa(int(vars[o])))
	}
	return strings.Join(s, ",")
}

func isSortLike(c *Ctx, fd *ast.FuncDecl) bool { return fd.Name.Name == "Sort" }

func spineShrinksIn(c *Ctx, fd *ast.FuncDecl, body ast.Node, base types.Object) bool {
	shr := false
	ast.Inspect(body, func(n ast.Node) bool {
		if as, ok := n.(*ast.AssignStmt); ok {
			for _, l := range as.Lhs {
				if b, ct := c.spineBase(l); ct != nil && c.obj(b) == base {
					shr = true
				}
			}
		}
		return true
	})
	return shr
}

// checkBounds evaluates the index / slice bounds of a spine access in env and checks them against the length n.
func checkBounds(c *Ctx, ev *evalEnv, e ast.Expr, n int64) string {
	switch x := e.(type) {
	case *ast.IndexExpr:
		v, ok := ev.int(x.Index)
		if !ok {
			return "index expression outside the vocabulary: " + exprStr(x.Index)
		}
		if v < 0 || v >= n {
			return "index " + exprStr(x.Index) + " = " + itoa(int(v)) + " with length " + itoa(int(n))
		}
	case *ast.SliceExpr:
		lo, hi := int64(0), n
		if x.Low != nil {
			v, ok := ev.int(x.Low)
			if !ok {
				return "slice bound outside the vocabulary: " + exprStr(x.Low)
			}
			lo = v
		}
		if x.High != nil {
			v, ok := ev.int(x.High)
			if !ok {
				return "slice bound outside the vocabulary: " + exprStr(x.High)
			}
			hi = v
		}
		if lo < 0 || lo > hi || hi > n {
			return "slice [" + itoa(int(lo)) + ":" + itoa(int(hi)) + "] with length " + itoa(int(n)) + " (Go only checks against capacity)"
		}
	}
	return ""
}

func c05WriteBeforePanic(c *Ctx) {
	a := c.E3()
	n := 0
	for _, name := range []string{"(*list).Insert", "(*list).Replace", "(*list).Get", "(*list).Delete", "(*list).Pop", "(*list).SubList", "(*list).Sort"} {
		fd := c.NeedDecl("C05.R3", name)
		fn := a.ByName(name)
		if fd == nil || fn == nil {
			continue
		}
		n++
		var lastPanic token.Pos
		ast.Inspect(fd.Body, func(m ast.Node) bool {
			if call, ok := m.(*ast.CallExpr); ok && c.isBuiltin(call, "panic") && call.Pos() > lastPanic {
				lastPanic = call.Pos()
			}
			return true
		})
		ob := c.Ob("C05.R3", name, fd.Pos())
		bad := ""
		for _, e := range a.eff[fn] {
			if e.Target&oROOTS&^oFRESH == 0 {
				continue
			}
			if e.Kind == "reorder-arg" {
				continue // sorts the caller's index slice, not a list
			}
			if lastPanic.IsValid() && e.Pos < lastPanic {
				// allowed only when the panic is in a different switch arm / branch that excludes the write: check they share no path
				if !exclusiveBranches(fd, e.Pos, lastPanic) {
					bad = e.Kind + " at " + c.Pos(e.Pos) + " precedes the panic at " + c.Pos(lastPanic)
				}
			}
		}
		if bad != "" {
			ob.Fail("a list is modified before the operation panics: %s", bad)
		} else {
			ob.Ok("every write effect on pre-existing memory comes after the last explicit panic (or lies in an arm exclusive with it): a panicking call leaves every list unchanged")
		}
	}
	c.R.Floor("C05.R3", n, 7)
}

// exclusiveBranches: positions p and q lie in different case clauses of one switch.
func exclusiveBranches(fd *ast.FuncDecl, p, q token.Pos) bool {
	excl := false
	ast.Inspect(fd.Body, func(n ast.Node) bool {
		var body *ast.BlockStmt
		switch x := n.(type) {
		case *ast.SwitchStmt:
			body = x.Body
		case *ast.TypeSwitchStmt:
			body = x.Body
		}
		if body == nil {
			return true
		}
		var cp, cq ast.Stmt
		for _, cl := range body.List {
			if cl.Pos() <= p && p < cl.End() {
				cp = cl
			}
			if cl.Pos() <= q && q < cl.End() {
				cq = cl
			}
		}
		if cp != nil && cq != nil && cp != cq {
			excl = true
		}
		return true
	})
	return excl
}

func c05Reference(c *Ctx) {
	n := 0
	if fd := c.NeedDecl("C05.R6", "(*list).Get"); fd != nil {
		n++
		ob := c.Ob("C05.R6", "(*list).Get", fd.Pos())
		ps := intParams(c, fd)
		last, ok := fd.Body.List[len(fd.Body.List)-1].(*ast.ReturnStmt)
		good := ok && len(last.Results) == 1 && len(ps) == 1
		if good {
			call, ok := unparen(last.Results[0]).(*ast.CallExpr)
			good = ok && len(call.Args) == 0 && c.isValueAccessor(c.callee(call))
			if good {
				sel := unparen(call.Fun).(*ast.SelectorExpr)
				ix, ok := unparen(sel.X).(*ast.IndexExpr)
				good = ok && c.isRecvSpine(fd, ix.X) && c.obj(ix.Index) == ps[0]
			}
		}
		ob.Check(good, "returns spine[index].getVal(): the identical nested container for containers (C19.R3), the value for scalars", "Get does not return spine[index].getVal()")
	}
	if fd := c.NeedDecl("C05.R6", "(*list).IndexOf"); fd != nil {
		n++
		ob := c.Ob("C05.R6", "(*list).IndexOf", fd.Pos())
		val := soleParam(c, fd)
		sl := spineLoops(c, fd)
		good := len(sl) == 1 && len(fd.Body.List) == 2
		if good {
			l := sl[0]
			nf := c.loopNormalForm(l.Stmt.Body)
			good = len(nf.Undecided) == 0 && len(nf.Actions) == 1 && nf.Actions[0].Kind == "return" && len(nf.Actions[0].Guard) == 1 && !nf.Actions[0].Guard[0].Neg
			if good {
				ret := nf.Actions[0].Stmt.(*ast.ReturnStmt)
				good = len(ret.Results) == 1 && l.Key != nil && c.obj(ret.Results[0]) == l.Key
				be, ok := nf.Actions[0].Guard[0].Expr.(*ast.BinaryExpr)
				good = good && ok && be.Op == token.EQL && ((c.elemForm(be.X, l.Value) == "val" && c.obj(be.Y) == val) || (c.elemForm(be.Y, l.Value) == "val" && c.obj(be.X) == val))
			}
			r, ok := fd.Body.List[1].(*ast.ReturnStmt)
			good = good && ok && len(r.Results) == 1
			if good {
				k, ok := c.constInt(r.Results[0])
				good = ok && k == -1
			}
		}
		ob.Check(good, "first index whose getVal() == value, else -1", "IndexOf is not the first-match search over getVal()")
	}
	c.R.Floor("C05.R6", n, 2)
}

// ---------------------------------------------------------------- C17

func init() {
	register(&Property{
		ID: "C17",
		Explanation: "Sort: the switch on element 0's wrapper pairs each of the three sortable kinds with the typed slice of the SAME kind (selection decided by C14), a sort function of the trusted table applied to that slice, and a hand-over of NewListFrom(slice)'s fresh spine to the RECEIVER; " +
			"the default arm panics with no prior write; the return is fluent. Multiset preservation = XSlice keeps every element of kind X (C14) + sort.* permutes (trusted) + NewListFrom copies element-wise (C12.R2). " +
			"Reverse: the loop's index set, folded for n = 0..9, is exactly [0, floor(n/2)-1]; the body is a true swap v[i], v[j] = v[j], v[i] with j = n-1-i on the receiver's spine and nothing else is written, hence the permutation i -> n-1-i, an involution. " +
			"Heterogeneous lists and the empty list for Sort are outside the property's domain.",
		Rules: []Rule{
			{ID: "C17.R1", Doc: "Sort table: wrapper kind <-> typed slice of that kind <-> trusted sort function on that slice <-> NewListFrom(slice) spine handed to the receiver; default panics before any write; fluent return", Run: c17Sort},
			{ID: "C17.R2", Doc: "Reverse: index set = [0, n/2-1] (folded n=0..9), true swap with the mirrored index n-1-i on the receiver's spine, no other write", Run: c17Reverse},
		},
	})
}

var trustedSorts = map[string]string{"sort.Strings": "string", "sort.Ints": "int", "sort.Float64s": "float", "slices.Sort": "*"}

func c17Sort(c *Ctx) {
	fd := c.NeedDecl("C17.R1", "(*list).Sort")
	if fd == nil {
		return
	}
	ts := findTypeSwitch(fd.Body)
	if ts == nil {
		c.Ob("C17.R1", "(*list).Sort", fd.Pos()).Undecided("no kind switch")
		return
	}
	op := typeSwitchOperand(ts)
	ix, ok := unparen(op).(*ast.IndexExpr)
	good := ok && c.isRecvSpine(fd, ix.X)
	if good {
		k, ok := c.constInt(ix.Index)
		good = ok && k == 0
	}
	c.Ob("C17.R1", "(*list).Sort/operand", ts.Pos()).Check(good, "switches on the wrapper of element 0", "Sort does not switch on the kind of element 0")
	arms := map[string]bool{}
	hasDefault := false
	for _, cl := range ts.Body.List {
		cc := cl.(*ast.CaseClause)
		if cc.List == nil {
			hasDefault = true
			c.Ob("C17.R1", "(*list).Sort/default", cc.Pos()).Check(blockPanicsOnly(c, cc.Body), "a first element of another kind panics before anything is written", "default arm does not simply panic")
			continue
		}
		if len(cc.List) != 1 {
			c.Ob("C17.R1", "(*list).Sort/arm", cc.Pos()).Undecided("multi-type arm")
			continue
		}
		T := c.typeOf(cc.List[0])
		kind := c.kindOfType(T)
		ob := c.Ob("C17.R1", "(*list).Sort/case "+shortType(T), cc.Pos())
		if _, isPtr := T.(*types.Pointer); !isPtr || (kind != "string" && kind != "int" && kind != "float") {
			ob.Fail("arm for %s: only string, int and float lists are sortable", shortType(T))
			continue
		}
		arms[kind] = true
		if len(cc.Body) != 3 {
			ob.Fail("arm is not: typed slice; sort; hand-over")
			continue
		}
		as, ok1 := cc.Body[0].(*ast.AssignStmt)
		es, ok2 := cc.Body[1].(*ast.ExprStmt)
		ho, ok3 := cc.Body[2].(*ast.AssignStmt)
		if !ok1 || !ok2 || !ok3 || len(as.Lhs) != 1 || len(as.Rhs) != 1 || len(ho.Lhs) != 1 || len(ho.Rhs) != 1 {
			ob.Fail("unexpected statements in the arm")
			continue
		}
		slice := c.obj(as.Lhs[0])
		sc, ok := unparen(as.Rhs[0]).(*ast.CallExpr)
		if !ok || len(sc.Args) != 0 {
			ob.Fail("the arm does not start from a typed slice of the receiver")
			continue
		}
		ssel, ok := unparen(sc.Fun).(*ast.SelectorExpr)
		if !ok || !c.isSelf(fd, ssel.X) || c.callee(sc) == nil || c14Family(c.callee(sc).Name()) != "Slice" {
			ob.Fail("the arm does not start from a typed slice view of the receiver")
			continue
		}
		st, _ := c.typeOf(sc).Underlying().(*types.Slice)
		if st == nil || c.kindOfType(st.Elem()) != kind {
			ob.Fail("the %s arm sorts the %s elements (%s): the other elements are lost and the list changes kind", kind, c.kindOfType(st.Elem()), c.callee(sc).Name())
			continue
		}
		call, ok := es.X.(*ast.CallExpr)
		full := ""
		if ok {
			full = c.calleeFull(call)
		}
		tk, trusted := trustedSorts[full]
		if !trusted || len(call.Args) != 1 || c.obj(call.Args[0]) != slice || (tk != "*" && tk != kind) {
			ob.Fail("the slice is not ordered by a sort function of the trusted table applied to it (found %s): non-decreasing order is not guaranteed for all values", exprStr(es.X))
			continue
		}
		// hand-over: recv.val = NewListFrom(slice).(*list).val
		goodHO := c.isRecvSpine(fd, ho.Lhs[0]) && ho.Tok == token.ASSIGN
		if goodHO {
			base, bct := c.spineBase(ho.Rhs[0])
			goodHO = bct != nil && bct.IsList
			if goodHO {
				e := unparen(base)
				if ta, ok := e.(*ast.TypeAssertExpr); ok {
					e = unparen(ta.X)
				}
				nc, ok := e.(*ast.CallExpr)
				goodHO = ok && len(nc.Args) == 1 && c.obj(nc.Args[0]) == slice && c.callee(nc) != nil && c.callee(nc).Name() == "NewListFrom"
			}
		}
		if !goodHO {
			ob.Fail("the sorted slice is not rebuilt with NewListFrom(slice) and installed as the RECEIVER's spine (the same list must be rearranged in place)")
			continue
		}
		ob.Ok("%s: %s() -> %s -> receiver.spine = NewListFrom(slice).spine", kind, c.callee(sc).Name(), full)
	}
	c.Ob("C17.R1", "(*list).Sort/arms", ts.Pos()).Check(len(arms) == 3 && hasDefault, "arms for string, int, float and a panicking default", "expected arms for exactly string, int, float plus a default")
	// nothing but the switch and the fluent return
	good = len(fd.Body.List) == 2
	if good {
		r, ok := fd.Body.List[1].(*ast.ReturnStmt)
		good = ok && len(r.Results) == 1 && c.isEgo(fd, r.Results[0])
	}
	c.Ob("C17.R1", "(*list).Sort/frame", fd.Pos()).Check(good, "body = kind switch; return ego", "Sort has statements besides the kind switch and the fluent return")
}

func c17Reverse(c *Ctx) {
	fd := c.NeedDecl("C17.R2", "(*list).Reverse")
	if fd == nil {
		return
	}
	ob := c.Ob("C17.R2", "(*list).Reverse/index-set", fd.Pos())
	var loop *ast.ForStmt
	for _, s := range fd.Body.List {
		if fs, ok := s.(*ast.ForStmt); ok && loop == nil {
			loop = fs
		}
	}
	if loop == nil || len(allLoops(fd)) != 1 {
		// slices.Reverse(recv.spine) from the trusted table
		for _, s := range fd.Body.List {
			if es, ok := s.(*ast.ExprStmt); ok {
				if call, ok := es.X.(*ast.CallExpr); ok && c.calleeFull(call) == "slices.Reverse" && len(call.Args) == 1 && c.isRecvSpine(fd, call.Args[0]) {
					ob.Ok("slices.Reverse on the receiver's spine (trusted table)")
					return
				}
			}
		}
		ob.Undecided("Reverse is neither one index loop nor slices.Reverse(spine)")
		return
	}
	h, ok := c.forHeader(loop)
	if !ok {
		ob.Undecided("loop header outside the vocabulary (accepted: one index variable, constant step, comparison bound)")
		return
	}
	if why := loopHasEarlyExit(loop); why != "" {
		ob.Fail("%s inside the swap loop", why)
		return
	}
	// the swap statement
	var swap *ast.AssignStmt
	for _, s := range loop.Body.List {
		if as, ok := s.(*ast.AssignStmt); ok && len(as.Lhs) == 2 && len(as.Rhs) == 2 && as.Tok == token.ASSIGN {
			swap = as
		}
	}
	sob := c.Ob("C17.R2", "(*list).Reverse/swap", loop.Pos())
	if swap == nil {
		sob.Fail("no tuple-assignment swap in the loop (two separate assignments overwrite one element)")
		return
	}
	l0, okA := unparen(swap.Lhs[0]).(*ast.IndexExpr)
	l1, okB := unparen(swap.Lhs[1]).(*ast.IndexExpr)
	if !okA || !okB || !c.isRecvSpine(fd, l0.X) || !c.isRecvSpine(fd, l1.X) || !c.sameExpr(swap.Rhs[0], swap.Lhs[1]) || !c.sameExpr(swap.Rhs[1], swap.Lhs[0]) {
		sob.Fail("the swap is not v[a], v[b] = v[b], v[a] on the receiver's spine")
		return
	}
	bad, undec := "", ""
	cases := 0
	for n := int64(0); n <= 9 && bad == "" && undec == ""; n++ {
		visited := map[int64]bool{}
		for i := int64(-2); i <= n+2; i++ {
			out, ev, why := c.foldFunc(fd, foldCase{N: n, Vars: map[types.Object]int64{h.Var: i}}, swap)
			if out == foUndec {
				undec = why
				break
			}
			if out != foReach {
				continue
			}
			cases++
			a, ok1 := ev.int(l0.Index)
			b, ok2 := ev.int(l1.Index)
			if !ok1 || !ok2 {
				undec = "swap indices outside the vocabulary"
				break
			}
			if a > b {
				a, b = b, a
			}
			if a+b != n-1 || a < 0 || b >= n || a == b {
				bad = "n=" + itoa(int(n)) + " i=" + itoa(int(i)) + ": swaps positions " + itoa(int(a)) + " and " + itoa(int(b)) + ", which are not a mirrored pair (a + b = n-1, a < b)"
				break
			}
			if visited[a] {
				bad = "n=" + itoa(int(n)) + ": pair (" + itoa(int(a)) + "," + itoa(int(b)) + ") is swapped twice"
				break
			}
			visited[a] = true
		}
		if bad == "" && undec == "" && int64(len(visited)) != n/2 {
			bad = "n=" + itoa(int(n)) + ": " + itoa(len(visited)) + " mirrored pairs are swapped, expected " + itoa(int(n/2)) + " (some element stays in place that must move)"
		}
	}
	switch {
	case undec != "":
		ob.Undecided("%s", undec)
	case bad != "":
		ob.Fail("%s", bad)
	default:
		ob.Ok("for n = 0..9 the loop swaps exactly the floor(n/2) mirrored pairs (i, n-1-i), each once (%d swaps folded)", cases)
		sob.Ok("true swap v[a], v[b] = v[b], v[a] on the receiver's spine")
	}
	// no other write: E3 effects of Reverse are exactly the two element stores
	a := c.E3()
	if fn := a.ByName("(*list).Reverse"); fn != nil {
		n := 0
		other := ""
		for _, e := range a.eff[fn] {
			if e.Kind == "store-elem" && e.Target&oROOTS == oRECV && e.Value&oROOTS == oELEM {
				n++
			} else {
				other = e.Kind
			}
		}
		c.Ob("C17.R2", "(*list).Reverse/frame", fd.Pos()).Check(n == 2 && other == "", "the only writes are the two element stores of the swap (elements of the same spine): a permutation, nothing lost or altered", "Reverse performs other writes ("+other+") or not exactly two element stores")
	}
	last, isRet := fd.Body.List[len(fd.Body.List)-1].(*ast.ReturnStmt)
	c.Ob("C17.R2", "(*list).Reverse/return", fd.Pos()).Check(isRet && len(last.Results) == 1 && c.isEgo(fd, last.Results[0]), "fluent return", "Reverse does not return ego")
}
