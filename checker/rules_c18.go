package main

// C18 — numeric aggregates equal the reference folds over the numeric elements.

import (
	"go/ast"
	"go/constant"
	"go/token"
	"go/types"
	"math"
	"reflect"
)

func init() {
	register(&Property{
		ID: "C18",
		Explanation: "Structure of the nine aggregates: identities are constant-evaluated (0, 1, MaxInt, MinInt, >=MaxFloat64, <=-MaxFloat64); Sum/Prod/IntSum/IntProd are reduced to the loop normal form of C14 and must accumulate " +
			"with one operator over exactly the int (as float64) and float64 elements in float64 (Int*: the int elements in int); the Min/Max reducers must compare accumulator and element in one numeric domain and return the smaller (larger) operand on both arms " +
			"(contradiction rule between the int and float arm); the presence flag selects between the fold and 0; Avg = Sum/float64(Count); all are write-free (E3). Floating-point rounding and overflow are not decided.",
		Rules: []Rule{
			{ID: "C18.R1", Doc: "fold identities: sums 0, products 1, IntMin MaxInt, IntMax MinInt, Min >= MaxFloat64, Max <= -MaxFloat64 (constant-evaluated)", Run: c18Folds},
			{ID: "C18.R2", Doc: "operators and reducer direction: +/* on both arms in float64; Min/IntMin return the smaller, Max/IntMax the larger, same direction on every arm", Run: func(c *Ctx) {}},
			{ID: "C18.R3", Doc: "empty => 0 via a presence flag set on every reducer invocation; Avg = Sum()/float64(Count())", Run: c18Avg},
			{ID: "C18.R4", Doc: "selection: Int* fold exactly the int elements; Sum/Prod fold int and float64 elements", Run: func(c *Ctx) {}},
			{ID: "C18.R5", Doc: "PURE: no aggregate writes the list", Run: func(c *Ctx) {
				n := pureRule(c, "C18.R5", []string{"(*list).Sum", "(*list).Prod", "(*list).Min", "(*list).Max", "(*list).Avg", "(*list).IntSum", "(*list).IntProd", "(*list).IntMin", "(*list).IntMax"})
				c.R.Floor("C18.R5", n, 9)
			}},
		},
	})
}

func c18Folds(c *Ctx) {
	ct := c.Inv().List()
	if ct == nil {
		c.Ob("C18.R1", "list", token.NoPos).Missing("no list container")
		return
	}
	n := 0
	for _, spec := range []struct {
		name   string
		op     token.Token
		ident  int64
		intFam bool
	}{{"Sum", token.ADD_ASSIGN, 0, false}, {"Prod", token.MUL_ASSIGN, 1, false}, {"IntSum", token.ADD_ASSIGN, 0, true}, {"IntProd", token.MUL_ASSIGN, 1, true}} {
		name := "(*list)." + spec.name
		fd := c.NeedDecl("C18.R2", name)
		if fd == nil {
			continue
		}
		n++
		c18Accumulate(c, fd, name, spec.op, spec.ident, spec.intFam)
	}
	for _, spec := range []struct {
		name    string
		smaller bool
		intFam  bool
	}{{"Min", true, false}, {"Max", false, false}, {"IntMin", true, true}, {"IntMax", false, true}} {
		name := "(*list)." + spec.name
		fd := c.NeedDecl("C18.R2", name)
		if fd == nil {
			continue
		}
		n++
		c18MinMax(c, fd, name, spec.smaller, spec.intFam)
	}
	c.R.Floor("C18.R1", n, 8)
}

// c18Accumulate: acc (named result or local) starts at ident; the single spine loop accumulates with op over the right elements.
func c18Accumulate(c *Ctx, fd *ast.FuncDecl, name string, op token.Token, ident int64, intFam bool) {
	sl := spineLoops(c, fd)
	if len(sl) != 1 || len(allLoops(fd)) != 1 {
		c.Ob("C18.R2", name+"/loop", fd.Pos()).Fail("expected one range loop over the receiver's spine accumulating in the result type; found %d loops (%d over the spine) — the fold is not computed directly over the elements", len(allLoops(fd)), len(sl))
		return
	}
	l := sl[0]
	if why := loopEarlyExit(l.Stmt, true); why != "" {
		c.Ob("C18.R2", name+"/loop", l.Stmt.Pos()).Fail("%s inside the fold loop", why)
		return
	}
	nf := c.loopNormalForm(l.Stmt.Body)
	if len(nf.Undecided) > 0 {
		c.Ob("C18.R2", name+"/loop", l.Stmt.Pos()).Undecided("loop body outside the understood vocabulary: %v", nf.Undecided)
		return
	}
	// accumulator: the variable assigned by the actions
	var acc types.Object
	wantArms := map[string]bool{"int": true}
	if !intFam {
		wantArms["float"] = true
	}
	gotArms := map[string]bool{}
	for _, a := range nf.Actions {
		as, ok := a.Stmt.(*ast.AssignStmt)
		if !ok || len(as.Lhs) != 1 || len(as.Rhs) != 1 {
			c.Ob("C18.R2", name+"/action", a.Stmt.Pos()).Fail("statement in the fold loop is not an accumulation")
			return
		}
		if acc == nil {
			acc = c.obj(as.Lhs[0])
		}
		if acc == nil || c.obj(as.Lhs[0]) != acc {
			c.Ob("C18.R2", name+"/action", a.Stmt.Pos()).Fail("fold loop assigns to more than one variable")
			return
		}
		var operand ast.Expr
		switch {
		case as.Tok == op:
			operand = as.Rhs[0]
		case as.Tok == token.ASSIGN:
			// acc = acc OP x  /  acc = x OP acc
			be, ok := unparen(as.Rhs[0]).(*ast.BinaryExpr)
			binop := map[token.Token]token.Token{token.ADD_ASSIGN: token.ADD, token.MUL_ASSIGN: token.MUL}[op]
			if ok && be.Op == binop && c.obj(be.X) == acc {
				operand = be.Y
			} else if ok && be.Op == binop && c.obj(be.Y) == acc {
				operand = be.X
			}
		}
		if operand == nil {
			c.Ob("C18.R2", name+"/operator", a.Stmt.Pos()).Fail("accumulation does not use the operator %s of this fold (found %s)", op, as.Tok)
			return
		}
		oks, negOks, others := guardAtoms(c, a.Guard)
		if len(oks) != 1 || len(others) != 0 {
			c.Ob("C18.R4", name+"/guard", a.Stmt.Pos()).Fail("accumulation must be guarded by exactly one successful kind test")
			return
		}
		kt := findTest(nf, oks[0])
		if kt == nil || kt.Val == nil {
			c.Ob("C18.R4", name+"/guard", a.Stmt.Pos()).Fail("guard is not the ok of a kind test binding a value")
			return
		}
		kind := c.testKind(kt, l.Value)
		if _, isBasic := kt.T.(*types.Basic); !isBasic || !wantArms[kind] {
			c.Ob("C18.R4", name+"/guard", a.Stmt.Pos()).Fail("accumulates elements of kind %q; this fold is over %v", kind, keysOf(wantArms))
			return
		}
		// the failed tests in the guard must be of the other wanted kinds only (else-if chain)
		for _, no := range negOks {
			nk := findTest(nf, no)
			if nk == nil || !wantArms[c.testKind(nk, l.Value)] {
				c.Ob("C18.R4", name+"/guard", a.Stmt.Pos()).Fail("accumulation is skipped for elements failing an unrelated test")
				return
			}
		}
		if gotArms[kind] {
			c.Ob("C18.R4", name+"/guard", a.Stmt.Pos()).Fail("kind %q is accumulated twice", kind)
			return
		}
		gotArms[kind] = true
		// operand: val (same type as acc) or float64(val) for the int arm of a float fold
		operand = unparen(operand)
		okOperand := false
		if c.obj(operand) == kt.Val && types.Identical(kt.T, acc.Type()) {
			okOperand = true
		} else if call, ok := operand.(*ast.CallExpr); ok && len(call.Args) == 1 && c.obj(call.Args[0]) == kt.Val {
			if tv, ok := c.Info.Types[call.Fun]; ok && tv.IsType() && types.Identical(tv.Type, acc.Type()) && !intFam && kind == "int" {
				okOperand = true
			}
		}
		c.Ob("C18.R2", name+"/arm-"+kind, a.Stmt.Pos()).Check(okOperand, "acc "+op.String()+" the tested "+kind+" value in the accumulator's type "+shortType(acc.Type()),
			"operand of the accumulation is not the tested element value converted to "+shortType(acc.Type()))
	}
	c.Ob("C18.R4", name+"/selection", l.Stmt.Pos()).Check(len(gotArms) == len(wantArms), "folds exactly the element kinds "+sprint(keysOf(wantArms)), "folds kinds "+sprint(keysOf(gotArms))+", expected "+sprint(keysOf(wantArms)))
	if acc == nil {
		return
	}
	// accumulator type
	wantT := types.Typ[types.Float64]
	if intFam {
		wantT = types.Typ[types.Int]
	}
	c.Ob("C18.R2", name+"/domain", fd.Pos()).Check(types.Identical(acc.Type(), wantT), "accumulates in "+shortType(wantT), "accumulates in "+shortType(acc.Type())+", not in "+shortType(wantT))
	// identity: statements before the loop
	ob := c.Ob("C18.R1", name+"/identity", fd.Pos())
	val, known := int64(0), false
	isNamedResult := false
	if fd.Type.Results != nil {
		for _, f := range fd.Type.Results.List {
			for _, nm := range f.Names {
				if c.Info.Defs[nm] == acc {
					isNamedResult, known = true, true
				}
			}
		}
	}
	for _, s := range fd.Body.List {
		if s == ast.Stmt(l.Stmt) {
			break
		}
		switch x := s.(type) {
		case *ast.AssignStmt:
			for i, lh := range x.Lhs {
				if c.obj(lh) == acc && i < len(x.Rhs) {
					if tv, ok := c.Info.Types[x.Rhs[i]]; ok && tv.Value != nil {
						if f, ok2 := constant.Float64Val(constant.ToFloat(tv.Value)); ok2 || true {
							val, known = int64(f), f == math.Trunc(f)
						}
					} else {
						known = false
					}
				}
			}
		case *ast.DeclStmt:
			if gd, ok := x.Decl.(*ast.GenDecl); ok {
				for _, sp := range gd.Specs {
					if vs, ok := sp.(*ast.ValueSpec); ok {
						for i, nm := range vs.Names {
							if c.Info.Defs[nm] == acc {
								known, val = true, 0
								if i < len(vs.Values) {
									if tv, ok := c.Info.Types[vs.Values[i]]; ok && tv.Value != nil {
										f, _ := constant.Float64Val(constant.ToFloat(tv.Value))
										val, known = int64(f), f == math.Trunc(f)
									} else {
										known = false
									}
								}
							}
						}
					}
				}
			}
		}
	}
	_ = isNamedResult
	if !known {
		ob.Undecided("cannot evaluate the accumulator's initial value")
	} else {
		ob.Check(val == ident, "fold starts at "+itoa(int(ident)), "fold starts at "+itoa(int(val))+", the identity is "+itoa(int(ident)))
	}
	// returned value is the accumulator
	okRet := true
	for _, r := range returnsOf(fd.Body) {
		if len(r.Results) == 0 && isNamedResult {
			continue
		}
		if len(r.Results) != 1 || c.obj(r.Results[0]) != acc {
			okRet = false
		}
	}
	c.Ob("C18.R2", name+"/result", fd.Pos()).Check(okRet, "returns the accumulator", "returns something other than the accumulator")
}

func sprint(s []string) string {
	out := "["
	for i, x := range s {
		if i > 0 {
			out += " "
		}
		out += x
	}
	return out + "]"
}

// c18MinMax: `acc := self.Reduce*(IDENT, func(acc, item) {present = true; ... })`; if present {return acc} else {return 0}
func c18MinMax(c *Ctx, fd *ast.FuncDecl, name string, smaller, intFam bool) {
	// find the reduce call with a function literal
	var call *ast.CallExpr
	var lit *ast.FuncLit
	inspectNoLit(fd.Body, func(n ast.Node) bool {
		if ce, ok := n.(*ast.CallExpr); ok && len(ce.Args) == 2 {
			if fl, ok := unparen(ce.Args[1]).(*ast.FuncLit); ok && call == nil {
				call, lit = ce, fl
			}
		}
		return true
	})
	if call == nil {
		c.Ob("C18.R2", name+"/reducer", fd.Pos()).Undecided("no Reduce call with a function literal found")
		return
	}
	sel, ok := unparen(call.Fun).(*ast.SelectorExpr)
	callee := c.callee(call)
	if !ok || !c.isSelf(fd, sel.X) || callee == nil {
		c.Ob("C18.R4", name+"/fold", call.Pos()).Fail("the fold is not a Reduce over the receiver itself")
		return
	}
	wantReduce := "Reduce"
	if intFam {
		wantReduce = "ReduceInts"
	}
	c.Ob("C18.R4", name+"/fold", call.Pos()).Check(callee.Name() == wantReduce, "folds with "+wantReduce+" (selection decided by C14 on that method)", "folds with "+callee.Name()+", expected "+wantReduce)
	// identity
	ob := c.Ob("C18.R1", name+"/identity", call.Args[0].Pos())
	tv, okc := c.Info.Types[call.Args[0]]
	if !okc || tv.Value == nil {
		ob.Undecided("identity is not a constant")
	} else {
		f, _ := constant.Float64Val(constant.ToFloat(tv.Value))
		var good bool
		var want string
		switch {
		case intFam && smaller:
			sz := c.intSize()
			lim := constant.MakeInt64(math.MaxInt32)
			if sz == 8 {
				lim = constant.MakeInt64(math.MaxInt64)
			}
			good, want = constant.Compare(tv.Value, token.EQL, lim), "math.MaxInt"
		case intFam && !smaller:
			sz := c.intSize()
			lim := constant.MakeInt64(math.MinInt32)
			if sz == 8 {
				lim = constant.MakeInt64(math.MinInt64)
			}
			good, want = constant.Compare(tv.Value, token.EQL, lim), "math.MinInt"
		case smaller:
			good, want = f >= math.MaxFloat64, ">= math.MaxFloat64"
		default:
			good, want = f <= -math.MaxFloat64, "<= -math.MaxFloat64"
		}
		ob.Check(good, "identity "+tv.Value.String()+" is "+want, "identity "+tv.Value.String()+" is not "+want+": elements beyond it are ignored")
	}
	// reducer body
	if len(lit.Type.Params.List) == 0 {
		c.Ob("C18.R2", name+"/reducer", lit.Pos()).Undecided("reducer without parameters")
		return
	}
	var params []types.Object
	for _, f := range lit.Type.Params.List {
		for _, nm := range f.Names {
			params = append(params, c.Info.Defs[nm])
		}
	}
	if len(params) != 2 {
		c.Ob("C18.R2", name+"/reducer", lit.Pos()).Undecided("reducer does not have two named parameters")
		return
	}
	accP, itemP := params[0], params[1]
	// derived-from map: locals bound by `v, ok := item.(T)` derive from item
	derived := map[types.Object]types.Object{accP: accP, itemP: itemP}
	var present types.Object
	presentFirst := false
	for i, s := range lit.Body.List {
		if as, ok := s.(*ast.AssignStmt); ok && len(as.Lhs) == 1 && len(as.Rhs) == 1 && as.Tok == token.ASSIGN && c.isConstBool(as.Rhs[0], true) {
			present = c.obj(as.Lhs[0])
			presentFirst = i == 0
		}
	}
	ast.Inspect(lit.Body, func(n ast.Node) bool {
		if as, ok := n.(*ast.AssignStmt); ok && len(as.Rhs) == 1 {
			if ta, ok := unparen(as.Rhs[0]).(*ast.TypeAssertExpr); ok {
				if src, ok := derived[c.obj(ta.X)]; ok && len(as.Lhs) >= 1 {
					if o := c.obj(as.Lhs[0]); o != nil {
						derived[o] = src
					}
				}
			}
		}
		return true
	})
	domainT := types.Typ[types.Float64]
	if intFam {
		domainT = types.Typ[types.Int]
	}
	// base strips value-preserving conversions into the fold's domain and assertions, returns the root param
	var base func(e ast.Expr) types.Object
	base = func(e ast.Expr) types.Object {
		e = unparen(e)
		switch x := e.(type) {
		case *ast.Ident:
			return derived[c.obj(x)]
		case *ast.TypeAssertExpr:
			return base(x.X)
		case *ast.CallExpr:
			if tv, ok := c.Info.Types[x.Fun]; ok && tv.IsType() && len(x.Args) == 1 && types.Identical(tv.Type, domainT) {
				// only int -> float64 (exact for the comparison's purpose) or identity
				at := c.typeOf(x.Args[0])
				if at != nil && (types.Identical(at, domainT) || (!intFam && types.Identical(at, types.Typ[types.Int]))) {
					return base(x.Args[0])
				}
			}
		}
		return nil
	}
	arms := 0
	dirOK := true
	ast.Inspect(lit.Body, func(n ast.Node) bool {
		is, ok := n.(*ast.IfStmt)
		if !ok {
			return true
		}
		be, ok := unparen(is.Cond).(*ast.BinaryExpr)
		if !ok || !isTok(be.Op, token.LSS, token.LEQ, token.GTR, token.GEQ) {
			return true
		}
		arms++
		ob := c.Ob("C18.R2", name+"/arm#"+itoa(arms), is.Pos())
		lt, rt := c.typeOf(be.X), c.typeOf(be.Y)
		if lt == nil || rt == nil || !types.Identical(lt, domainT) || !types.Identical(rt, domainT) {
			ob.Fail("comparison is carried out in %s/%s, not in the fold's domain %s (a lossy conversion changes the order)", shortType(lt), shortType(rt), shortType(domainT))
			dirOK = false
			return true
		}
		L, R := base(be.X), base(be.Y)
		if L == nil || R == nil || L == R || !((L == accP && R == itemP) || (L == itemP && R == accP)) {
			ob.Fail("comparison is not between the accumulator and the element (through value-preserving conversions only)")
			dirOK = false
			return true
		}
		thenRet, elseRet := singleReturn(is.Body), (*ast.ReturnStmt)(nil)
		if eb, ok := is.Else.(*ast.BlockStmt); ok {
			elseRet = singleReturn(eb)
		}
		if thenRet == nil || elseRet == nil || len(thenRet.Results) != 1 || len(elseRet.Results) != 1 {
			ob.Undecided("arm is not `if a OP b { return x } else { return y }`")
			dirOK = false
			return true
		}
		T, E := base(thenRet.Results[0]), base(elseRet.Results[0])
		if T == nil || E == nil || T == E {
			ob.Fail("the two branches do not return the two compared operands")
			dirOK = false
			return true
		}
		less := be.Op == token.LSS || be.Op == token.LEQ
		returnsSmaller := (less && T == L && E == R) || (!less && T == R && E == L)
		returnsLarger := (!less && T == L && E == R) || (less && T == R && E == L)
		switch {
		case smaller && returnsSmaller, !smaller && returnsLarger:
			ob.Ok("returns the %s of accumulator and element", map[bool]string{true: "smaller", false: "larger"}[smaller])
		default:
			ob.Fail("arm returns the %s operand; %s needs the %s on every arm", map[bool]string{true: "smaller", false: "larger"}[returnsSmaller], name, map[bool]string{true: "smaller", false: "larger"}[smaller])
			dirOK = false
		}
		return true
	})
	wantArms := 2
	if intFam {
		wantArms = 1
	}
	c.Ob("C18.R2", name+"/arms", lit.Pos()).Check(arms == wantArms && dirOK, itoa(arms)+" comparison arm(s), all in the same direction", "expected "+itoa(wantArms)+" well-formed comparison arm(s), found "+itoa(arms))
	// presence flag
	ob3 := c.Ob("C18.R3", name+"/presence", fd.Pos())
	if present == nil || !presentFirst {
		ob3.Fail("the reducer does not set a presence flag unconditionally as its first statement")
		return
	}
	// final: if present { return acc } else { return 0 }
	var accVar types.Object
	for _, s := range fd.Body.List {
		if as, ok := s.(*ast.AssignStmt); ok && len(as.Lhs) == 1 && len(as.Rhs) == 1 {
			if containsNode(as.Rhs[0], call) {
				accVar = c.obj(as.Lhs[0])
			}
		}
	}
	last, _ := fd.Body.List[len(fd.Body.List)-1].(*ast.IfStmt)
	good := false
	if last != nil && accVar != nil && c.obj(last.Cond) == present {
		tr := singleReturn(last.Body)
		var er *ast.ReturnStmt
		if eb, ok := last.Else.(*ast.BlockStmt); ok {
			er = singleReturn(eb)
		}
		if tr != nil && er != nil && len(tr.Results) == 1 && len(er.Results) == 1 && c.obj(tr.Results[0]) == accVar {
			if v, ok := c.constNumber(er.Results[0]); ok && v == 0 {
				good = true
			}
		}
	}
	// the flag must start false: declared without initialiser or with false
	if pv, ok := present.(*types.Var); ok && good {
		good = c.declaredZero(fd, pv)
	}
	ob3.Check(good, "presence flag (initially false) selects between the fold result and 0", "result selection is not `if present { return fold } else { return 0 }` with a flag that starts false")
}

func singleReturn(b *ast.BlockStmt) *ast.ReturnStmt {
	if b == nil || len(b.List) != 1 {
		return nil
	}
	r, _ := b.List[0].(*ast.ReturnStmt)
	return r
}

func containsNode(root ast.Node, target ast.Node) bool {
	if root == nil || target == nil || reflect.ValueOf(root).IsNil() {
		return false
	}
	found := false
	ast.Inspect(root, func(n ast.Node) bool {
		if n == target {
			found = true
		}
		return !found
	})
	return found
}

func (c *Ctx) constNumber(e ast.Expr) (float64, bool) {
	tv, ok := c.Info.Types[e]
	if !ok || tv.Value == nil {
		return 0, false
	}
	switch tv.Value.Kind() {
	case constant.Int, constant.Float:
		f, _ := constant.Float64Val(constant.ToFloat(tv.Value))
		return f, true
	}
	return 0, false
}

// declaredZero: v is declared by `var v T` without initialiser, or with a false/0 constant.
func (c *Ctx) declaredZero(fd *ast.FuncDecl, v *types.Var) bool {
	res := false
	ast.Inspect(fd.Body, func(n ast.Node) bool {
		switch x := n.(type) {
		case *ast.ValueSpec:
			for i, nm := range x.Names {
				if c.Info.Defs[nm] == v {
					if i >= len(x.Values) {
						res = true
					} else if c.isConstBool(x.Values[i], false) {
						res = true
					}
				}
			}
		case *ast.AssignStmt:
			if x.Tok == token.DEFINE {
				for i, l := range x.Lhs {
					if id, ok := l.(*ast.Ident); ok && c.Info.Defs[id] == v && i < len(x.Rhs) {
						res = c.isConstBool(x.Rhs[i], false)
					}
				}
			}
		}
		return true
	})
	return res
}

func (c *Ctx) intSize() int64 {
	return c.Pkg.TypesSizes.Sizeof(types.Typ[types.Int])
}

func c18Avg(c *Ctx) {
	fd := c.NeedDecl("C18.R3", "(*list).Avg")
	if fd == nil {
		return
	}
	ob := c.Ob("C18.R3", "(*list).Avg", fd.Pos())
	rets := returnsOf(fd.Body)
	if len(fd.Body.List) != 1 || len(rets) != 1 || len(rets[0].Results) != 1 {
		ob.Undecided("Avg is not a single return expression")
		return
	}
	be, ok := unparen(rets[0].Results[0]).(*ast.BinaryExpr)
	if !ok || be.Op != token.QUO {
		ob.Fail("Avg is not a quotient")
		return
	}
	num, ok1 := unparen(be.X).(*ast.CallExpr)
	den, ok2 := unparen(be.Y).(*ast.CallExpr)
	good := ok1 && ok2
	if good {
		ns, okn := unparen(num.Fun).(*ast.SelectorExpr)
		good = okn && c.isSelf(fd, ns.X) && c.callee(num) != nil && c.callee(num).Name() == "Sum" && len(num.Args) == 0
	}
	if good {
		tv, okd := c.Info.Types[den.Fun]
		good = okd && tv.IsType() && types.Identical(tv.Type, types.Typ[types.Float64]) && len(den.Args) == 1 && c.isCountOfRecv(fd, den.Args[0])
	}
	ob.Check(good, "Avg = self.Sum() / float64(count of the receiver)", "Avg is not Sum()/float64(Count()) of the receiver")
}
