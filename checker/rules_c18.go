package main

// C18 — numeric aggregates equal the reference folds over the numeric elements (SX path normal form + numeric folding).

import (
	"fmt"
	"go/ast"
	"go/constant"
	"go/token"
	"go/types"
	"math"
	"os"
	"strings"
)

func init() {
	register(&Property{
		ID: "C18",
		Explanation: "Decided on the symbolic path normal form (SX). Sum/Prod/IntSum/IntProd: one loop over the receiver's spine whose iteration paths update the accumulator by exactly `acc OP value` for elements that pass the kind test for int (converted to float64 in the float folds) resp. float64, " +
			"and leave it unchanged otherwise; the accumulator starts at the identity (0 / 1, constant-evaluated), has the fold's type and is what is returned. Min/Max/IntMin/IntMax: the reducer handed to Reduce/ReduceInts is folded numerically over sample accumulator/element values " +
			"(negative, fractional, mixed int/float) and must return the smaller (larger) of the two in the fold's domain on every sample — so comparisons in a lossy domain and arms of opposite direction are caught whatever their spelling; it sets the presence flag on every path, " +
			"the identity is MaxInt / MinInt / >= MaxFloat64 / <= -MaxFloat64, and the flag selects between the fold and 0. Avg = Sum()/float64(Count()); all are write-free (E3). Floating-point rounding and overflow are not decided.",
		Rules: []Rule{
			{ID: "C18.R1", Doc: "fold identities: sums 0, products 1, IntMin MaxInt, IntMax MinInt, Min >= MaxFloat64, Max <= -MaxFloat64 (constant-evaluated)", Run: c18Folds},
			{ID: "C18.R2", Doc: "operators and reducer direction: acc OP value per selected element; reducers return the smaller/larger of accumulator and element on all numeric samples", Run: func(c *Ctx) {}},
			{ID: "C18.R3", Doc: "empty => 0 via a presence flag set on every reducer invocation; Avg = Sum()/float64(Count())", Run: c18Avg},
			{ID: "C18.R4", Doc: "selection: Int* fold exactly the int elements; Sum/Prod fold int and float64 elements", Run: func(c *Ctx) {}},
			{ID: "C18.R6", Doc: "the folds the aggregates are built on (Reduce, ReduceInts) visit every element in order without early exit (= C14 on those methods)", Run: func(c *Ctx) {
				c.R.Floor("C18.R6", runAs(c, "C18.R6", c14Run, func(o *Obligation) bool { return strings.Contains(o.Construct, "(*list).Reduce") }), 2)
			}},
			{ID: "C18.R7", Doc: "the numbers folded are the numbers given: parseVal and the wrapper constructors store ints and floats unchanged (= C12.R1)", Run: func(c *Ctx) { c.R.Floor("C18.R7", runAs(c, "C18.R7", c12R1, nil), 10) }},
			{ID: "C18.R8", Doc: "the aggregates fold through ego.Ego(): every container is registered with itself or its derived value, never with another container (= C19.R2: Init discipline, no whole-struct copies)", Run: func(c *Ctx) {
				c.R.Floor("C18.R8", runAs(c, "C18.R8", c19R2, nil), 6)
			}},
			{ID: "C18.R5", Doc: "PURE: no aggregate writes the list", Run: func(c *Ctx) {
				n := pureRule(c, "C18.R5", []string{"(*list).Sum", "(*list).Prod", "(*list).Min", "(*list).Max", "(*list).Avg", "(*list).IntSum", "(*list).IntProd", "(*list).IntMin", "(*list).IntMax"})
				c.R.Floor("C18.R5", n, 9)
			}},
		},
	})
}

func c18Folds(c *Ctx) {
	n := 0
	for _, spec := range []struct {
		name   string
		op     token.Token
		ident  int64
		intFam bool
	}{{"Sum", token.ADD, 0, false}, {"Prod", token.MUL, 1, false}, {"IntSum", token.ADD, 0, true}, {"IntProd", token.MUL, 1, true}} {
		name := "(*list)." + spec.name
		fd := c.NeedDecl("C18.R2", name)
		if fd == nil {
			continue
		}
		n++
		c18Accumulate(c, fd, name, spec.op, spec.ident, spec.intFam)
	}
	for _, spec := range []struct {
		name    string
		smaller bool
		intFam  bool
	}{{"Min", true, false}, {"Max", false, false}, {"IntMin", true, true}, {"IntMax", false, true}} {
		name := "(*list)." + spec.name
		fd := c.NeedDecl("C18.R2", name)
		if fd == nil {
			continue
		}
		n++
		c18MinMax(c, fd, name, spec.smaller, spec.intFam)
	}
	c.R.Floor("C18.R1", n, 8)
}

func sprint(s []string) string {
	out := "["
	for i, x := range s {
		if i > 0 {
			out += " "
		}
		out += x
	}
	return out + "]"
}

// elemValueOfKind: t is the value of the range element seen as basic type T: getVal(elem).(T)#0, or getVal(elem).(T) under a type switch.
func (v *sxView) elemValue(t Term, l *LoopRec) (types.Type, bool) {
	var as TAssert
	switch x := t.(type) {
	case TProj:
		a, ok := x.X.(TAssert)
		if !ok || x.K != 0 {
			return nil, false
		}
		as = a
	case TAssert:
		as = x
	default:
		return nil, false
	}
	if !v.isElemVal(as.X, l) {
		return nil, false
	}
	return as.To, true
}

// isElemVal: t is getVal() of the loop's current element.
func (v *sxView) isElemVal(t Term, l *LoopRec) bool {
	e, ok := v.valueOf(t)
	if !ok {
		return false
	}
	if l.Value != nil && isParamTerm(e, l.Value) {
		return true
	}
	ix, ok := e.(TIndex)
	return ok && v.isRecvSpine(ix.X) && l.Key != nil && isParamTerm(ix.I, l.Key)
}

func c18Accumulate(c *Ctx, fd *ast.FuncDecl, name string, op token.Token, ident int64, intFam bool) {
	lob := c.Ob("C18.R2", name+"/loop", fd.Pos())
	paths, why := c.runPaths(fd)
	if why != "" {
		lob.Undecided("body outside the path vocabulary: %s", why)
		return
	}
	v := c.view(fd)
	if intFam {
		// integer addition and multiplication are commutative and associative (wrap-around included): any order of the visit will do
		v2 := *v
		v2.anyOrder = true
		paths = v2.normalizePaths(paths)
	}
	p, loop, msg := singleLoopPath(paths)
	if msg == "no loop" && len(paths) == 1 && c18AccumulateByFold(c, fd, name, op, ident, intFam, paths[0], v, lob) {
		return
	}
	if msg != "" {
		lob.Fail("expected one range loop over the receiver's spine accumulating in the result type (%s) — the fold is not computed directly over the elements", msg)
		return
	}
	if r := v.asRange(loop); r != nil {
		loop = r
	}
	if loop.Range == nil || !v.isRecvSpine(loop.Over) {
		lob.Fail("the fold loop does not range over the receiver's own spine")
		return
	}
	if len(p.Effects()) != 1 || p.End != "return" || len(p.Vals) != 1 {
		lob.Fail("the aggregate has effects besides its fold loop")
		return
	}
	accT, ok := p.Vals[0].(TLoop)
	if !ok || accT.ID != loop.ID {
		lob.Fail("the returned value is not the loop's accumulator")
		return
	}
	acc := accT.Obj
	lob.Ok("one range loop over the receiver's spine; the accumulator is what is returned")
	wantT := types.Typ[types.Float64]
	if intFam {
		wantT = types.Typ[types.Int]
	}
	accType := acc.Type()
	if _, isTP := accType.(*types.TypeParam); isTP {
		// the accumulator of an inlined generic helper: it is returned as it is (no conversion in between), so its type at this
		// instance is the aggregate's own result type
		if res := c.FuncObj(fd).Type().(*types.Signature).Results(); res.Len() == 1 {
			accType = res.At(0).Type()
		}
	}
	c.Ob("C18.R2", name+"/domain", fd.Pos()).Check(types.Identical(accType, wantT), "accumulates in "+shortType(wantT), "accumulates in "+shortType(accType)+", not in "+shortType(wantT)+" (integers wrap / fractions are lost)")
	// identity
	iob := c.Ob("C18.R1", name+"/identity", fd.Pos())
	init, has := loop.Init[acc]
	if !has {
		init = TConst{constant.MakeInt64(0)} // named result never assigned before the loop
	}
	if f, ok := c.constNumberTerm(init); !ok {
		iob.Undecided("cannot evaluate the accumulator's initial value %s", c.termStr(init))
	} else {
		iob.Check(f == float64(ident), "fold starts at "+itoa(int(ident)), "fold starts at "+c.termStr(init)+", the identity is "+itoa(int(ident)))
	}
	// iteration paths
	wantArms := map[string]bool{"int": true}
	if !intFam {
		wantArms["float"] = true
	}
	got := map[string]bool{}
	for _, ip := range loop.Iter {
		if ip.End != "fall" && ip.End != "continue" {
			c.Ob("C18.R2", name+"/iteration", posOfNode(ip.Node)).Fail("%s inside the fold loop", ip.End)
			return
		}
		if len(ip.Effects()) != 0 {
			c.Ob("C18.R2", name+"/iteration", loop.Node.Pos()).Fail("the fold loop has an effect besides the accumulation")
			return
		}
		// selected kind on this path
		sel := ""
		for _, cd := range ip.Conds() {
			op2, T, isTest := kindTestOf(cd.T)
			if !isTest || !v.isElemVal(op2, loop) {
				c.Ob("C18.R4", name+"/guard", loop.Node.Pos()).Fail("the fold loop decides on %s, which is not a kind test of the element's value", c.termStr(cd.T))
				return
			}
			if cd.Truth {
				k := c.kindOfType(T)
				if _, isBasic := T.(*types.Basic); !isBasic || !wantArms[k] {
					c.Ob("C18.R4", name+"/guard", loop.Node.Pos()).Fail("elements of kind %q are accumulated; this fold is over %v", k, keysOf(wantArms))
					return
				}
				sel = k
			}
		}
		end, ok := ip.Env[acc]
		if !ok {
			end = TLoop{acc, loop.ID}
		}
		if sel == "" {
			if !sameTerm(end, TLoop{acc, loop.ID}) {
				c.Ob("C18.R4", name+"/guard", loop.Node.Pos()).Fail("the accumulator changes for an element that passed no kind test")
				return
			}
			continue
		}
		if got[sel] {
			c.Ob("C18.R4", name+"/guard", loop.Node.Pos()).Fail("kind %q is accumulated on two paths", sel)
			return
		}
		got[sel] = true
		aob := c.Ob("C18.R2", name+"/arm-"+sel, loop.Node.Pos())
		b, ok := end.(TBin)
		if !ok || b.Op != op {
			aob.Fail("the accumulation for %s elements does not use the operator %s of this fold (found %s)", sel, op, c.termStr(end))
			continue
		}
		operand := b.Y
		if !sameTerm(b.X, TLoop{acc, loop.ID}) {
			if !sameTerm(b.Y, TLoop{acc, loop.ID}) {
				aob.Fail("the accumulation is not acc %s value", op)
				continue
			}
			operand = b.X
		}
		if cv, ok := operand.(TConv); ok && types.Identical(cv.To, acc.Type()) && sel == "int" && !intFam {
			operand = cv.X
		}
		T, ok := v.elemValue(operand, loop)
		if !ok || c.kindOfType(T) != sel {
			aob.Fail("the operand %s is not the tested %s value of the current element (converted to %s)", c.termStr(operand), sel, shortType(acc.Type()))
			continue
		}
		aob.Ok("acc %s the tested %s value in %s", op, sel, shortType(acc.Type()))
	}
	c.Ob("C18.R4", name+"/selection", loop.Node.Pos()).Check(len(got) == len(wantArms), "folds exactly the element kinds "+sprint(keysOf(wantArms)), "folds kinds "+sprint(keysOf(got))+", expected "+sprint(keysOf(wantArms)))
}

// c18AccumulateByFold: the aggregate written as one Reduce/ReduceInts fold over the receiver (selection and order decided by C14 on that
// method): identity constant, reducer folded numerically to acc OP element, the fold's result returned. Reports true when it took the decision.
func c18AccumulateByFold(c *Ctx, fd *ast.FuncDecl, name string, op token.Token, ident int64, intFam bool, p *Path, v *sxView, lob *Ob) bool {
	effs := p.Effects()
	if len(effs) != 1 || effs[0].Kind != "call" || effs[0].Call == nil || effs[0].Call.Fun == nil || len(p.Conds()) != 0 {
		return false
	}
	fold := effs[0].Call
	wantReduce := "Reduce"
	if intFam {
		wantReduce = "ReduceInts"
	}
	if fold.Recv == nil || !(v.isSelf(fold.Recv) || v.isRecv(fold.Recv)) || len(fold.Args) != 2 || fold.Fun.Name() != wantReduce {
		return false
	}
	var fl *ast.FuncLit
	switch a := fold.Args[1].(type) {
	case TLit:
		fl, _ = a.Node.(*ast.FuncLit)
	case TFunc:
		// a declared private function of the package used as the reducer
		if a.Fun != nil && a.Fun.Pkg() == c.Types {
			if d := c.DeclOf(a.Fun); d != nil && d.Body != nil && d.Recv == nil {
				fl = &ast.FuncLit{Type: d.Type, Body: d.Body}
			}
		}
	}
	if fl == nil {
		return false
	}
	var ps []types.Object
	for _, f := range fl.Type.Params.List {
		for _, nm := range f.Names {
			ps = append(ps, c.Info.Defs[nm])
		}
	}
	if len(ps) != 2 {
		return false
	}
	r := p.Vals
	if p.End != "return" || len(r) != 1 {
		lob.Fail("the aggregate does not return the fold's result")
		return true
	}
	rv := r[0]
	if a, ok := rv.(TAssert); ok {
		rv = a.X
	}
	if rc, ok := rv.(TCall); !ok || key(rc) != key(*fold) {
		lob.Fail("the aggregate does not return the fold's result")
		return true
	}
	lob.Ok("one %s fold over the receiver (visit and selection decided by C14 on %s); its result is what is returned", wantReduce, wantReduce)
	iob := c.Ob("C18.R1", name+"/identity", fd.Pos())
	if f, ok := c.constNumberTerm(fold.Args[0]); !ok {
		iob.Undecided("identity is not a constant")
	} else {
		iob.Check(f == float64(ident), "fold starts at "+itoa(int(ident)), "fold starts at "+c.termStr(fold.Args[0])+", the identity is "+itoa(int(ident)))
	}
	if !intFam {
		k, isK := simplify(fold.Args[0]).(TConst)
		c.Ob("C18.R2", name+"/domain", fd.Pos()).Check(isK && k.Val.Kind() == constant.Float, "accumulates in float64 (the identity is a float64 constant)", "the identity is not a float64 constant: the accumulator's dynamic type is int and the float64 assertion of the result panics")
	}
	bodyPaths := c.NewSX().RunStmts(fl.Body.List, effs[0].Env)
	rob := c.Ob("C18.R2", name+"/reducer", fl.Pos())
	for _, bp := range bodyPaths {
		if bp.Why != "" {
			rob.Undecided("reducer outside the path vocabulary: %s", bp.Why)
			return true
		}
		if len(bp.Effects()) != 0 {
			rob.Fail("the reducer has an effect besides computing the accumulator")
			return true
		}
	}
	bad, undec, n := c.foldReducer(bodyPaths, ps, intFam, !intFam, "acc "+op.String()+" element", func(acc, item numVal) float64 {
		if op == token.MUL {
			return acc.F * item.F
		}
		return acc.F + item.F
	})
	switch {
	case undec != "":
		rob.Undecided("reducer cannot be folded numerically: %s", undec)
	case bad != "":
		rob.Fail("%s", bad)
	default:
		rob.Ok("on all %d (accumulator, element) samples the reducer returns acc %s element; an element of another kind leaves the accumulator unchanged", n, op)
	}
	return true
}

func (c *Ctx) constNumberTerm(t Term) (float64, bool) {
	k, ok := simplify(t).(TConst)
	if !ok {
		return 0, false
	}
	switch k.Val.Kind() {
	case constant.Int, constant.Float:
		f, _ := constant.Float64Val(constant.ToFloat(k.Val))
		return f, true
	}
	return 0, false
}

// foldReducer evaluates the paths of a two-parameter reducer literal on a grid of (accumulator, element) samples — negative, zero,
// fractional, int-typed and float64-typed elements, and (withOther) an element of a non-numeric kind, for which the accumulator must
// come back unchanged — and compares the result with want. Exactly one path must apply to every sample.
func (c *Ctx) foldReducer(bodyPaths []*Path, ps []types.Object, intFam, withOther bool, what string, want func(acc, item numVal) float64) (bad, undec string, n int) {
	accKey, itemKey := key(TVar{ps[0]}), key(TVar{ps[1]})
	floats := []float64{-3, -2.5, -1, -0.5, 0, 0.5, 1, 2.5, 3}
	ints := []float64{-3, -1, 0, 1, 3}
	type sample struct {
		acc, item numVal
	}
	var samples []sample
	if intFam {
		for _, a := range ints {
			for _, b := range ints {
				samples = append(samples, sample{numVal{F: a, IsInt: true}, numVal{F: b, IsInt: true}})
			}
		}
	} else {
		for _, a := range floats {
			for _, b := range floats {
				samples = append(samples, sample{numVal{F: a}, numVal{F: b}})
			}
			for _, b := range ints {
				samples = append(samples, sample{numVal{F: a}, numVal{F: b, IsInt: true}})
			}
			if withOther {
				samples = append(samples, sample{numVal{F: a}, numVal{Other: true}})
			}
		}
	}
	for _, sm := range samples {
		matched := 0
		for _, bp := range bodyPaths {
			e := &numEnv{vals: map[string]numVal{accKey: sm.acc, itemKey: sm.item}}
			holds := true
			for _, cd := range bp.Conds() {
				val, ok := e.cond(cd.T)
				if !ok {
					undec = e.fail
					break
				}
				if val != cd.Truth {
					holds = false
					break
				}
			}
			if undec != "" {
				break
			}
			if !holds {
				continue
			}
			matched++
			if bp.End != "return" || len(bp.Vals) != 1 {
				bad = "a reducer path does not return a value"
				break
			}
			got, ok := e.num(bp.Vals[0])
			if !ok {
				if len(e.fail) > 6 && e.fail[:6] == "panic:" {
					bad = "for acc=" + fmtNum(sm.acc) + ", element=" + fmtNum(sm.item) + " the reducer panics (" + e.fail + ")"
				} else {
					undec = e.fail
				}
				break
			}
			w := sm.acc.F
			if !sm.item.Other {
				w = want(sm.acc, sm.item)
			}
			if got.F != w || got.Other {
				bad = "for acc=" + fmtNum(sm.acc) + ", element=" + fmtNum(sm.item) + " the reducer yields " + fmtF(got.F) + ", " + what + " is " + fmtF(w)
				break
			}
			if !intFam && got.IsInt {
				bad = "the reducer returns an int where the fold's accumulator is float64 (the next step or the final assertion panics)"
				break
			}
		}
		if bad != "" || undec != "" {
			break
		}
		if matched != 1 {
			undec = "the reducer's paths are not exhaustive and exclusive for acc=" + fmtNum(sm.acc) + ", element=" + fmtNum(sm.item)
			break
		}
	}
	return bad, undec, len(samples)
}

func c18MinMax(c *Ctx, fd *ast.FuncDecl, name string, smaller, intFam bool) {
	rob := c.Ob("C18.R2", name+"/reducer", fd.Pos())
	paths, why := c.runPaths(fd)
	if why != "" {
		rob.Undecided("body outside the path vocabulary: %s", why)
		return
	}
	v := c.view(fd)
	// the fold call: the one effect on every path
	var fold *TCall
	var foldEnv map[types.Object]Term
	for _, p := range paths {
		for _, s := range p.Effects() {
			if s.Kind == "call" && s.Call != nil && fold == nil {
				fold = s.Call
				foldEnv = s.Env
			} else if s.Kind == "call" && s.Call != nil && fold != nil && key(*s.Call) == key(*fold) {
				continue
			} else {
				rob.Fail("unexpected effect %s", c.stepStr(s))
				return
			}
		}
	}
	if fold == nil || fold.Fun == nil || fold.Recv == nil || !v.isSelf(fold.Recv) || len(fold.Args) != 2 {
		rob.Fail("the aggregate is not a Reduce over the receiver itself")
		return
	}
	wantReduce := "Reduce"
	if intFam {
		wantReduce = "ReduceInts"
	}
	c.Ob("C18.R4", name+"/fold", posOfNode(fold.Site)).Check(fold.Fun.Name() == wantReduce, "folds with "+wantReduce+" (selection decided by C14 on that method)", "folds with "+fold.Fun.Name()+", expected "+wantReduce)
	// identity
	iob := c.Ob("C18.R1", name+"/identity", posOfNode(fold.Site))
	if k, ok := simplify(fold.Args[0]).(TConst); !ok {
		iob.Undecided("identity is not a constant")
	} else {
		f, _ := constant.Float64Val(constant.ToFloat(k.Val))
		var good bool
		var want string
		lim := func(v32, v64 int64) constant.Value {
			if c.intSize() == 8 {
				return constant.MakeInt64(v64)
			}
			return constant.MakeInt64(v32)
		}
		switch {
		case intFam && smaller:
			good, want = constant.Compare(constant.ToInt(k.Val), token.EQL, lim(math.MaxInt32, math.MaxInt64)), "math.MaxInt"
		case intFam && !smaller:
			good, want = constant.Compare(constant.ToInt(k.Val), token.EQL, lim(math.MinInt32, math.MinInt64)), "math.MinInt"
		case smaller:
			good, want = f >= math.MaxFloat64, ">= math.MaxFloat64"
		default:
			good, want = f <= -math.MaxFloat64, "<= -math.MaxFloat64"
		}
		iob.Check(good, "identity "+k.Val.String()+" is "+want, "identity "+k.Val.String()+" is not "+want+": elements beyond it are ignored")
	}
	lit, ok := fold.Args[1].(TLit)
	fl, isFl := lit.Node.(*ast.FuncLit)
	var boundRecv Term
	if mv, isMV := fold.Args[1].(TCall); isMV && mv.Name == "methodvalue" && mv.Epoch == -1 && mv.Fun != nil && mv.Recv != nil {
		// a method of a struct made in this call, bound to it (search.next): its body with the receiver bound to that struct is the
		// closure; only a pointer receiver shares the struct's fields with the caller
		if md := c.DeclOf(mv.Fun); md != nil && md.Body != nil && md.Recv != nil && len(md.Recv.List) == 1 && len(md.Recv.List[0].Names) == 1 {
			if _, isPtr := c.typeOf(md.Recv.List[0].Type).(*types.Pointer); isPtr {
				fl, ok, isFl = &ast.FuncLit{Type: md.Type, Body: md.Body}, true, true
				foldEnv = copyEnv(foldEnv)
				foldEnv[c.Info.Defs[md.Recv.List[0].Names[0]]] = mv.Recv
				boundRecv = mv.Recv
			}
		}
	}
	if !ok || !isFl {
		rob.Undecided("the reducer is not a function literal")
		return
	}
	var ps []types.Object
	for _, f := range fl.Type.Params.List {
		for _, nm := range f.Names {
			ps = append(ps, c.Info.Defs[nm])
		}
	}
	if len(ps) != 2 {
		rob.Undecided("reducer does not have two named parameters")
		return
	}
	bodyPaths := c.NewSX().RunStmts(fl.Body.List, foldEnv) // with the environment the literal captures (functions handed to a shared helper)
	for _, bp := range bodyPaths {
		if bp.Why != "" {
			rob.Undecided("reducer outside the path vocabulary: %s", bp.Why)
			return
		}
	}
	// presence flag: a captured bool set to true on every path of the reducer
	var present types.Object
	for i, bp := range bodyPaths {
		var here types.Object
		for o, t := range bp.Env {
			if o.Pos() >= fl.Pos() && o.Pos() < fl.End() {
				continue
			}
			if t0, had := foldEnv[o]; had && t0 != nil && sameTerm(t0, t) {
				continue // a captured constant the reducer does not touch (a mode switch of a shared helper)
			}
			if isConstBoolTerm(t, true) && types.Identical(o.Type().Underlying(), types.Typ[types.Bool]) {
				here = o
			}
		}
		if here == nil || (i > 0 && here != present) {
			present = nil
			break
		}
		present = here
	}
	// numeric folding of the reducer
	dir := map[bool]string{true: "smaller", false: "larger"}[smaller]
	bad, undec, nSamples := c.foldReducer(bodyPaths, ps, intFam, false, "the "+dir, func(acc, item numVal) float64 {
		want := acc.F
		if (smaller && item.F < want) || (!smaller && item.F > want) {
			want = item.F
		}
		return want
	})
	switch {
	case undec != "":
		rob.Undecided("reducer cannot be folded numerically: %s", undec)
	case bad != "":
		rob.Fail("%s", bad)
	default:
		rob.Ok("on all %d (accumulator, element) samples — negative, fractional, int and float elements — the reducer returns the %s of the two in %s", nSamples, dir, map[bool]string{true: "int", false: "float64"}[intFam])
	}
	// presence flag and result selection
	pob := c.Ob("C18.R3", name+"/presence", fd.Pos())
	if present == nil {
		pob.Fail("the reducer does not set one presence flag on every path")
		return
	}
	good := len(paths) == 2
	if os.Getenv("ANYCHECK_DEBUG") != "" {
		fmt.Fprintf(os.Stderr, "C18.R3 %s: present=%s@%d boundRecv=%v\n", name, present.Name(), present.Pos(), boundRecv != nil)
		for _, p := range paths {
			for _, cd := range p.Conds() {
				fmt.Fprintf(os.Stderr, "   cond %s %T\n", key(cd.T), cd.T)
			}
		}
	}
	for _, p := range paths {
		conds := p.Conds()
		if len(conds) != 1 || p.End != "return" || len(p.Vals) != 1 {
			good = false
			continue
		}
		lv, ok := conds[0].T.(TLoop)
		if !ok || lv.Obj != present {
			good = false
			continue
		}
		if conds[0].Truth {
			// the fold's result (possibly asserted to float64)
			r := p.Vals[0]
			if a, ok := r.(TAssert); ok {
				r = a.X
			}
			rc, ok := r.(TCall)
			good = good && ok && key(rc) == key(*fold)
		} else {
			f, ok := c.constNumberTerm(p.Vals[0])
			good = good && ok && f == 0
		}
	}
	if good {
		// the flag starts false
		if t, ok := foldEnv[present]; ok {
			good = isConstBoolTerm(simplify(t), false) // its value when the fold starts
		} else if _, isLit := stripAddr(boundRecv).(TLit); boundRecv != nil && isLit {
			// a field of the struct the reducer is bound to, not written since the struct was made: what its literal gives it
			good = false
			b := boundRecv
			if a, isA := b.(TAddr); isA {
				b = a.X
			}
			if rl, isL := b.(TLit); isL && rl.Type != nil {
				if stt, isS := rl.Type.Underlying().(*types.Struct); isS {
					for i := 0; i < stt.NumFields(); i++ {
						if stt.Field(i).Pos() == present.Pos() {
							good = isConstBoolTerm(simplify(c.NewSX().fieldInit(structObj{lit: &rl}, stt.Field(i))), false)
						}
					}
				}
			}
		} else if strings.HasPrefix(present.Name(), "·") {
			// a field of a struct made on the path, not written before the fold: the zero value of a struct declared without a
			// literal (·field@var…), or what its literal gives the field (·field@lit<n>: the literal is among the captured values)
			good = false
			nm := present.Name()
			switch at := strings.LastIndex(nm, "@"); {
			case at >= 0 && strings.HasPrefix(nm[at+1:], "var"):
				good = true
			case at >= 0 && strings.HasPrefix(nm[at+1:], "lit"):
				for _, t := range foldEnv {
					if t == nil {
						continue
					}
					collectSubterms(t, func(u Term) {
						rl, isL := u.(TLit)
						if !isL || rl.Type == nil || "lit"+itoa(rl.Fresh) != nm[at+1:] {
							return
						}
						if stt, isS := rl.Type.Underlying().(*types.Struct); isS {
							for i := 0; i < stt.NumFields(); i++ {
								if stt.Field(i).Pos() == present.Pos() {
									good = isConstBoolTerm(simplify(c.NewSX().fieldInit(structObj{lit: &rl}, stt.Field(i))), false)
								}
							}
						}
					})
				}
			}
		} else {
			good = c.declaredZeroObj(fd, present)
		}
	}
	pob.Check(good, "presence flag (initially false, set on every reducer invocation) selects between the fold result and 0", "result selection is not `if present { return fold } else { return 0 }` with a flag that starts false")
}

func fmtF(f float64) string {
	return constant.MakeFloat64(f).String()
}

func fmtNum(v numVal) string {
	if v.IsInt {
		return "int " + fmtF(v.F)
	}
	return "float " + fmtF(v.F)
}

func singleReturn(b *ast.BlockStmt) *ast.ReturnStmt {
	if b == nil || len(b.List) != 1 {
		return nil
	}
	r, _ := b.List[0].(*ast.ReturnStmt)
	return r
}

// declaredZeroObj: v is declared by `var v T` without initialiser, or with a false constant.
func (c *Ctx) declaredZeroObj(fd *ast.FuncDecl, v types.Object) bool {
	res := false
	ast.Inspect(fd.Body, func(n ast.Node) bool {
		switch x := n.(type) {
		case *ast.ValueSpec:
			for i, nm := range x.Names {
				if c.Info.Defs[nm] == v {
					if i >= len(x.Values) {
						res = true
					} else if c.isConstBool(x.Values[i], false) {
						res = true
					}
				}
			}
		case *ast.AssignStmt:
			if x.Tok == token.DEFINE {
				for i, l := range x.Lhs {
					if id, ok := l.(*ast.Ident); ok && c.Info.Defs[id] == v && i < len(x.Rhs) {
						res = c.isConstBool(x.Rhs[i], false)
					}
				}
			}
		}
		return true
	})
	return res
}

func (c *Ctx) intSize() int64 {
	return c.Pkg.TypesSizes.Sizeof(types.Typ[types.Int])
}

func c18Avg(c *Ctx) {
	fd := c.NeedDecl("C18.R3", "(*list).Avg")
	if fd == nil {
		return
	}
	ob := c.Ob("C18.R3", "(*list).Avg", fd.Pos())
	paths, why := c.runPaths(fd)
	v := c.view(fd)
	good := why == "" && len(paths) == 1 && paths[0].End == "return" && len(paths[0].Vals) == 1 && len(paths[0].Effects()) == 0
	if good {
		b, ok := paths[0].Vals[0].(TBin)
		good = ok && b.Op == token.QUO
		if good {
			nm, args, ok := v.selfCall(b.X)
			good = ok && nm == "Sum" && len(args) == 0
			cv, okc := b.Y.(TConv)
			good = good && okc && types.Identical(cv.To, types.Typ[types.Float64]) && v.isCountOfRecv(cv.X)
		}
	}
	ob.Check(good, "Avg = self.Sum() / float64(count of the receiver)", "Avg is not Sum()/float64(Count()) of the receiver")
}

func stripAddr(t Term) Term {
	if a, ok := t.(TAddr); ok {
		return a.X
	}
	return t
}
