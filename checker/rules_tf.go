package main

// E7 — tree-form (TF) conformance: C10 (reads) and C11 (writes), decided on the SX path normal form by folding the paths
// over ALL short path strings (alphabet {'.', '#', 'a', '1'}, length <= 5) and, for lists, all small lengths: for every such
// input the feasible path must perform exactly the calls that step-by-step navigation prescribes, with concretely equal
// segment / rest / index arguments. The string functions are folded by the standard library itself (trusted table).

import (
	"go/ast"
	"go/constant"
	"go/token"
	"go/types"
	"sort"
	"strconv"
	"strings"
)

func kindConstName(list bool) string {
	if list {
		return "TypeList"
	}
	return "TypeObject"
}

func getterName(list bool) string {
	if list {
		return "GetList"
	}
	return "GetObject"
}

func ctorName(list bool) string {
	if list {
		return "NewList"
	}
	return "NewObject"
}

func posOf(fd *ast.FuncDecl) token.Pos {
	if fd == nil {
		return token.NoPos
	}
	return fd.Pos()
}

type tfM struct {
	c      *Ctx
	ct     *Cont
	method string
	name   string
	fd     *ast.FuncDecl
	v      *sxView
	paths  []*Path
	tf     types.Object
	value  types.Object
	consts map[string]string // Type constant value -> name
	why    string
}

func newTFM(c *Ctx, ct *Cont, method string) *tfM {
	m := &tfM{c: c, ct: ct, method: method, name: "(*" + ct.Named.Obj().Name() + ")." + method}
	m.fd = c.Decl(m.name)
	if m.fd == nil {
		m.why = "no implementation"
		return m
	}
	m.v = c.view(m.fd)
	k := 0
	for _, f := range m.fd.Type.Params.List {
		for _, nm := range f.Names {
			if k == 0 {
				m.tf = c.Info.Defs[nm]
			} else if k == 1 {
				m.value = c.Info.Defs[nm]
			}
			k++
		}
	}
	m.paths, m.why = c.runPaths(m.fd)
	m.consts = map[string]string{}
	sc := c.Types.Scope()
	for _, n := range sc.Names() {
		if kc, ok := sc.Lookup(n).(*types.Const); ok && kc.Exported() && typeConstKind(n) != "" {
			m.consts[kc.Val().ExactString()] = n
		}
	}
	return m
}

func (m *tfM) own() byte {
	if m.ct.IsList {
		return '#'
	}
	return '.'
}

// env builds the folding hook for path string s and list length n.
func (m *tfM) env(s string, n int64) *strEnv {
	e := &strEnv{}
	e.hook = func(t Term) (sval, bool) {
		if isParamTerm(t, m.tf) {
			return sval{K: 's', S: s}, true
		}
		if m.v.isCountOfRecv(t) {
			return sval{K: 'i', I: n}, true
		}
		return sval{}, false
	}
	return e
}

// render prints a term with every string / integer subterm folded to its concrete value.
func (m *tfM) render(t Term, e *strEnv) string {
	sub := &strEnv{hook: e.hook}
	if v, ok := sub.val(t); ok && sub.panic == "" {
		switch v.K {
		case 's':
			return strconv.Quote(v.S)
		case 'i':
			if k, isC := t.(TConst); isC {
				if n, ok := m.consts[k.Val.ExactString()]; ok && m.isTypeConst(t) {
					return n
				}
			}
			return strconv.FormatInt(v.I, 10)
		case 'b':
			return boolStr(v.B)
		}
	}
	switch x := t.(type) {
	case TNil:
		return "nil"
	case TVar:
		if m.v.isRecv(t) {
			return "self"
		}
		if x.Obj == m.value {
			return "value"
		}
		return x.Obj.Name()
	case TConst:
		if n, ok := m.consts[x.Val.ExactString()]; ok {
			return n
		}
		return x.Val.String()
	case TCall:
		if m.v.isSelf(t) {
			return "self"
		}
		name := x.Name
		if x.Fun == nil {
			name = "?"
		}
		args := unpack(x.Args)
		var as []string
		for _, a := range args {
			as = append(as, m.render(a, e))
		}
		recv := ""
		if x.Recv != nil {
			recv = m.render(x.Recv, e) + "."
		}
		return recv + name + "(" + strings.Join(as, ", ") + ")"
	case TSel:
		if m.v.isSelf(t) {
			return "self"
		}
		return m.render(x.X, e) + "." + x.Field.Name()
	case TAssert:
		return m.render(x.X, e)
	case TProj:
		if as, ok := x.X.(TAssert); ok && x.K == 0 {
			if g := m.getterAssert(TProj{as, 1}); g != "" {
				if call, ok := as.X.(TCall); ok && len(call.Args) == 1 {
					return "self." + g + "(" + m.render(call.Args[0], e) + ")" // the asserted result of Get: what the typed getter returns
				}
				if k, ok := m.spineValue(as.X); ok {
					return "self." + g + "(" + m.render(k, e) + ")"
				}
			}
		}
		return m.render(x.X, e) + "#" + itoa(x.K)
	case TConv:
		return m.render(x.X, e)
	case TBin:
		return "(" + m.render(x.X, e) + " " + x.Op.String() + " " + m.render(x.Y, e) + ")"
	case TUn:
		return x.Op.String() + m.render(x.X, e)
	case TLit:
		var as []string
		for _, a := range x.Elts {
			as = append(as, m.render(a, e))
		}
		return "{" + strings.Join(as, ", ") + "}"
	case TLoop:
		return x.Obj.Name() + "′"
	}
	return m.c.termStr(t)
}

// spineElem: t is self.spine[k] (a plain or comma-ok load, possibly asserted to a container interface): returns k.
func (m *tfM) spineElem(t Term) (Term, bool) {
	for i := 0; i < 3; i++ {
		switch x := t.(type) {
		case TProj:
			if x.K != 0 {
				return nil, false
			}
			t = x.X
			continue
		case TAssert:
			if m.c.Inv().ContByIface(x.To) == nil {
				return nil, false
			}
			t = x.X
			continue
		}
		break
	}
	ix, ok := t.(TIndex)
	if !ok || !m.v.isRecvSpine(ix.X) {
		return nil, false
	}
	return ix.I, true
}

// spineValue: t is self.spine[k].getVal(): returns k.
func (m *tfM) spineValue(t Term) (Term, bool) {
	call, ok := t.(TCall)
	if !ok || call.Fun == nil || call.Recv == nil || len(call.Args) != 0 || !m.c.isValueAccessor(call.Fun) {
		return nil, false
	}
	return m.spineElem(call.Recv)
}

// getterAssert: t is the ok flag of `self.Get(k).(Object)` / `.(List)`: returns the name of the typed getter it spells out.
func (m *tfM) getterAssert(t Term) string {
	pr, ok := t.(TProj)
	if !ok || pr.K != 1 {
		return ""
	}
	as, ok := pr.X.(TAssert)
	if !ok {
		return ""
	}
	nm, args, ok := m.v.selfCall(as.X)
	if !ok || nm != "Get" || len(args) != 1 {
		// Get's own body spelled out: self.spine[k].getVal() (the element possibly seen through its own assertion to the interface)
		if _, isElem := m.spineValue(as.X); !isElem {
			return ""
		}
	}
	ct := m.c.Inv().ContByIface(as.To)
	if ct == nil {
		return ""
	}
	if ct.IsList {
		return "GetList"
	}
	return "GetObject"
}

func (m *tfM) isTypeConst(t Term) bool {
	k, ok := t.(TConst)
	if !ok {
		return false
	}
	_, ok = m.consts[k.Val.ExactString()]
	return ok && k.Val.Kind() == constant.Int
}

// oracle: a condition that depends on the container's content (not on the path string): rendered atom + polarity.
type tfOracle struct {
	Atom  string
	Truth bool
}

// observed outcome of one feasible path
type tfObs struct {
	Oracles []tfOracle
	Trace   []string
	End     string // panic | return <rendered value>
	Panic   string // run-time panic while folding (index out of range)
	Path    *Path
}

func (o tfObs) String() string {
	var os []string
	for _, a := range o.Oracles {
		os = append(os, a.Atom+"="+boolStr(a.Truth))
	}
	return "[" + strings.Join(os, ",") + "] " + strings.Join(o.Trace, "; ") + " => " + o.End
}

// mentionsSelfCall: the term contains a call on the receiver (content-dependent) that is not the count.
func (m *tfM) contentDependent(t Term) bool {
	dep := false
	collectSubterms(t, func(s Term) {
		if c, ok := s.(TCall); ok && c.Fun != nil && c.Recv != nil && m.v.isSelf(c.Recv) && !m.v.isCountOfRecv(s) && !m.v.isEgo(s) {
			dep = true
		}
		if ix, ok := s.(TIndex); ok && m.v.isRecvSpine(ix.X) {
			dep = true
		}
	})
	return dep
}

// observe folds all paths for (s, n) and returns the feasible ones.
func (m *tfM) observe(s string, n int64) ([]tfObs, string) {
	var out []tfObs
	for _, p := range m.paths {
		e := m.env(s, n)
		// values the effect-free loops of the path leave in their variables (a hand-written search for a separator)
		loopVals := map[string]sval{}
		base := e.hook
		e.hook = func(t Term) (sval, bool) {
			if lv, ok := t.(TLoop); ok {
				if v, ok := loopVals[key(lv)]; ok {
					return v, true
				}
			}
			return base(t)
		}
		obs := tfObs{Path: p}
		feasible := true
		undec := ""
		added := 0
		var walk func(steps []Step) bool
		walk = func(steps []Step) bool {
			top := len(steps) > 0 && len(p.Steps) > 0 && &steps[0] == &p.Steps[0]
			for si, st := range steps {
				switch st.Kind {
				case "cond":
					if m.getterAssert(st.Cond.T) != "" {
						// a typed getter's body spelled out: v, ok := self.Get(k).(Object); if !ok { panic }. The failing branch is the
						// getter's own panic (inside the call in the other spelling); the passing one decides nothing
						if !st.Cond.Truth && p.End == "panic" {
							feasible = false
							return false
						}
						if st.Cond.Truth {
							continue
						}
					}
					if m.contentDependent(st.Cond.T) {
						obs.Oracles = append(obs.Oracles, m.oracleOf(st.Cond, e))
						continue
					}
					sub := &strEnv{hook: e.hook}
					v, ok := sub.val(st.Cond.T)
					if sub.panic != "" {
						obs.Panic = sub.panic
						return false
					}
					if !ok || v.K != 'b' {
						undec = "condition cannot be folded: " + sub.fail
						return false
					}
					if v.B != st.Cond.Truth {
						feasible = false
						return false
					}
				case "call":
					if st.Call != nil {
						if st.Call.Fun != nil && (st.Call.Fun.Name() == "NewObject" || st.Call.Fun.Name() == "NewList" || st.Call.Fun.Name() == "Init") && st.Call.Fun.Pkg() == m.c.Types {
							continue // allocation
						}
						r := m.render(*st.Call, e)
						if strings.HasPrefix(r, "self.Add(") {
							added++
						}
						obs.Trace = append(obs.Trace, r)
					} else if st.Blt != nil {
						obs.Trace = append(obs.Trace, m.c.termStr(*st.Blt))
					}
				case "store":
					obs.Trace = append(obs.Trace, "store "+m.render(st.LHS, e))
				case "loop":
					// counted loops are expanded by simulating their header step by step; a count of the receiver that is (re-)evaluated
					// inside the loop is LIVE: it grows with every Add the body has performed so far
					loop := st.Loop
					if loopQuiet(loop) && loop.For != nil && loop.CondT != nil {
						var ex loopExit
						fin, why := m.c.foldLoopExit(loop, e.hook, m.c.depth(1300, 12000), nil, &ex)
						if why == "index out of range" || why == "slice bounds out of range" {
							obs.Panic = why
							return false
						}
						if why != "" {
							undec = "loop cannot be folded: " + why
							return false
						}
						for o, v := range fin {
							loopVals[key(TLoop{o, loop.ID})] = v
						}
						// a path that leaves the loop from inside (a helper's `return head, rest` in the round that found the separator) is
						// the path taken exactly when the fold left by that round; the others when it left by no round
						want := -1
						if top {
							want = inLoopExitPrefix(p, si)
						}
						if want != ex.Idx {
							feasible = false
							return false
						}
						continue
					}
					live := func(t Term) (int64, bool) {
						if m.v.isCountOfRecv(t) && termEpoch(t) >= loop.HeadEpoch {
							return n + int64(added), true
						}
						hasLive := false
						collectSubterms(t, func(s Term) {
							if m.v.isCountOfRecv(s) && termEpoch(s) >= loop.HeadEpoch {
								hasLive = true
							}
						})
						if hasLive {
							return 0, false // let the integer folder decompose the term down to the live count
						}
						sub := &strEnv{hook: e.hook}
						v, ok := sub.val(t)
						if ok && v.K == 'i' && sub.panic == "" {
							return v.I, true
						}
						return 0, false
					}
					sim := m.c.newLoopSim(loop, live)
					if sim.why != "" {
						undec = "loop cannot be folded: " + sim.why
						return false
					}
					for it := 0; ; it++ {
						if it > m.c.depth(1300, 12000) {
							undec = "loop does not terminate within the folding limit"
							return false
						}
						cond, ok := sim.cond(live)
						if !ok {
							undec = "loop cannot be folded: " + sim.why
							return false
						}
						if !cond {
							break
						}
						if len(loop.Iter) != 1 {
							undec = "loop body with several paths"
							return false
						}
						if !walk(loop.Iter[0].Steps) {
							return false
						}
						if !sim.post() {
							undec = "loop cannot be folded: " + sim.why
							return false
						}
					}
				case "go", "defer":
					undec = "go/defer in a tree-form method"
					return false
				}
			}
			return true
		}
		ok := walk(p.Steps)
		if undec != "" {
			return nil, undec
		}
		if !feasible {
			continue
		}
		if !ok && obs.Panic == "" {
			continue
		}
		if obs.Panic != "" {
			obs.End = "runtime-panic " + obs.Panic
			out = append(out, obs)
			continue
		}
		switch p.End {
		case "panic":
			obs.End = "panic"
		case "return":
			if len(p.Vals) == 1 {
				sub := &strEnv{hook: e.hook}
				obs.End = "return " + m.render(p.Vals[0], sub)
			} else {
				obs.End = "return"
			}
		default:
			obs.End = p.End
		}
		out = append(out, obs)
	}
	return out, ""
}

// ---- specification

type tfSpec struct {
	valid   bool   // own sigil, len >= 2, non-empty first segment
	wrongHd bool   // len < 2 or wrong leading sigil
	seg     string // first segment text
	rest    string // remainder starting at the next sigil ("" for a leaf)
	nextIsL bool   // next sigil is '#'
	idx     int64
	idxOK   bool
}

func (m *tfM) spec(s string) tfSpec {
	var sp tfSpec
	if len(s) < 2 || s[0] != m.own() {
		sp.wrongHd = true
		return sp
	}
	t := s[1:]
	if t[0] == '.' || t[0] == '#' {
		return sp // empty first segment
	}
	sp.valid = true
	p := strings.IndexAny(t, ".#")
	if p < 0 {
		sp.seg = t
	} else {
		sp.seg, sp.rest, sp.nextIsL = t[:p], t[p:], t[p] == '#'
	}
	if m.ct.IsList {
		v, err := strconv.ParseInt(sp.seg, 0, strconv.IntSize)
		sp.idx, sp.idxOK = v, err == nil
	}
	return sp
}

func (m *tfM) segArg(sp tfSpec) string {
	if m.ct.IsList {
		return strconv.FormatInt(sp.idx, 10)
	}
	return strconv.Quote(sp.seg)
}

// oracleOf canonicalises a content-dependent condition: `self.TypeOf(x) == K` (either operand order, == or !=) becomes the atom
// "TypeOf(x)==K" with normalised polarity; `self.KeyExists(x)` becomes "KeyExists(x)"; anything else is kept as rendered.
func (m *tfM) oracleOf(cd Cond, e *strEnv) tfOracle {
	t, truth := cd.T, cd.Truth
	if u, ok := t.(TUn); ok && u.Op == token.NOT {
		t, truth = u.X, !truth
	}
	if b, ok := t.(TBin); ok && (b.Op == token.EQL || b.Op == token.NEQ) {
		call, k := b.X, b.Y
		if m.isTypeConst(call) {
			call, k = k, call
		}
		if nm, args, ok := m.v.selfCall(call); ok && nm == "TypeOf" && len(args) == 1 && m.isTypeConst(k) {
			if b.Op == token.NEQ {
				truth = !truth
			}
			return tfOracle{"TypeOf(" + m.render(args[0], e) + ")==" + m.render(k, e), truth}
		}
	}
	// self.spine[k].(Object) ok: the test TypeOf makes for the containers (C12.R3: TypeOf reports them by their interface)
	if op, T, ok := kindTestOf(t); ok && T != nil {
		if ct := m.c.Inv().ContByIface(T); ct != nil {
			if k, isElem := m.spineElem(op); isElem {
				return tfOracle{"TypeOf(" + m.render(k, e) + ")==" + kindConstName(ct.IsList), truth}
			}
		}
	}
	if nm, args, ok := m.v.selfCall(t); ok && nm == "KeyExists" && len(args) == 1 {
		return tfOracle{"KeyExists(" + m.render(args[0], e) + ")", truth}
	}
	return tfOracle{m.render(t, e), truth}
}

// hasOracle: the observation decided the canonical atom with the given outcome.
func hasOracle(o tfObs, atom string, truth bool) bool {
	for _, a := range o.Oracles {
		if a.Atom == atom && a.Truth == truth {
			return true
		}
	}
	return false
}

// tfStrings: the path strings a tree-form method is folded over: all strings up to length 5 over the two sigils, a letter and a digit —
// and over the characters the method's own code (with the helpers it inlines) compares a segment with or searches the path for (a
// wildcard, a quote, a sign), one position shorter, so that a special case keyed on another character cannot hide behind paths that
// never contain it.
func (c *Ctx) tfStrings(fd *ast.FuncDecl) []string {
	alphabet, depth := ".#a1", c.depth(5, 6)
	if fd != nil {
		if extra := c.constCharsOf(fd, alphabet+"'%", 2); extra != "" {
			alphabet += extra
			depth = c.depth(4, 5)
		}
	}
	return shortStrings(alphabet, depth)
}

// ---------------------------------------------------------------- C10

func init() {
	register(&Property{
		ID: "C10",
		Explanation: "The four read methods (GetTF, TypeOfTF of both containers) are executed symbolically (SX) and their paths are folded over ALL path strings of length <= 5 over the alphabet {'.', '#', letter, digit} (1365 strings; the code inspects only the length, the first two bytes and the first occurrences of the sigils): " +
			"for every string the feasible path must do exactly what step-by-step navigation prescribes — reject (panic / TypeUndefined) on a short path, a wrong leading sigil, an empty or (list) non-numeric first segment; otherwise return self.Get/TypeOf(segment) for a leaf, " +
			"or self.GetObject/GetList(segment) — the getter of the kind the NEXT sigil demands — continued with the same read method on exactly the rest; arguments are compared as concrete values. TypeOfTF additionally never panics: a descent through a panicking getter is only allowed on a path that established TypeOf(segment) == the needed kind, " +
			"every other feasible path returns TypeUndefined, and no string makes a byte index go out of range. Equality of the returned value follows by induction over segments (on paper). Hexadecimal/signed index spellings are outside the property's path grammar.",
		Rules: []Rule{
			{ID: "C10.R1", Doc: "GetTF/TypeOfTF equal step-by-step navigation on all short path strings (reject cases, kind-correct descent, exact segment/rest, leaf)", Run: c10Run},
			{ID: "C10.R2", Doc: "TypeOfTF never panics: panicking getters only behind the matching TypeOf guard; reject and parse failure return TypeUndefined; no byte index out of range", Run: func(c *Ctx) {}},
			{ID: "C10.R3", Doc: "GetTF rejects by panicking and descends through the panicking getters", Run: func(c *Ctx) {}},
			{ID: "C10.R4", Doc: "leaf hygiene: an empty first segment never resolves", Run: func(c *Ctx) {}},
			{ID: "C10.R6", Doc: "the navigation primitive TypeOf is defined exactly on the existing positions and never panics (= C05.R1 for list.TypeOf); the folding treats it as an atom", Run: func(c *Ctx) {
				fd := c.NeedDecl("C10.R6", "(*list).TypeOf")
				if fd != nil {
					c.R.Floor("C10.R6", runAs(c, "C10.R6", func(c2 *Ctx) { c05TypeOf(c2, fd) }, nil), 1)
				}
			}},
			{ID: "C10.R8", Doc: "KeyExists, the presence test TypeOfTF guards its last segment with, is the comma-ok of spine[key] — a field holding nil exists (= C06.R2 on KeyExists)", Run: func(c *Ctx) {
				c.R.Floor("C10.R8", runAs(c, "C10.R8", c06Basics, func(o *Obligation) bool { return strings.Contains(o.Construct, "KeyExists") }), 1)
			}},
			{ID: "C10.R7", Doc: "TypeOf, the kind test the navigation relies on, reports the stored kind of every field, containers by their interface (= C12.R3)", Run: func(c *Ctx) {
				c.R.Floor("C10.R7", runAs(c, "C10.R7", c12R3, func(o *Obligation) bool { return strings.Contains(o.Construct, "TypeOf") }), 2)
			}},
			{ID: "C10.R5", Doc: "PURE: tree-form reads write nothing", Run: func(c *Ctx) {
				c.R.Floor("C10.R5", pureRule(c, "C10.R5", []string{"(*list).GetTF", "(*list).TypeOfTF", "(*object).GetTF", "(*object).TypeOfTF"}), 4)
			}},
		},
	})
}

func c10Run(c *Ctx) {
	n := 0
	for _, ct := range c.Inv().Conts {
		for _, meth := range []string{"GetTF", "TypeOfTF"} {
			m := newTFM(c, ct, meth)
			if m.fd == nil {
				c.Ob("C10.R1", m.name, token.NoPos).Missing("read method not found")
				continue
			}
			n++
			if m.why != "" {
				c.Ob("C10.R1", m.name, m.fd.Pos()).Undecided("body outside the path vocabulary: %s", m.why)
				continue
			}
			c10Method(c, m, meth == "TypeOfTF")
		}
	}
	c.R.Floor("C10.R1", n, 4)
}

func c10Method(c *Ctx, m *tfM, isType bool) {
	type verdict struct {
		bad   string
		count int
	}
	res := map[string]*verdict{"reject": {}, "hygiene": {}, "descent": {}, "leaf": {}, "nopanic": {}, "parse": {}}
	fail := func(k, s, w string) {
		if res[k].bad == "" {
			res[k].bad = "path " + strconv.Quote(s) + ": " + w
		}
	}
	undec := ""
	for _, s := range c.tfStrings(m.fd) {
		obs, why := m.observe(s, 2)
		if why != "" {
			undec = "path " + strconv.Quote(s) + ": " + why
			break
		}
		if len(obs) == 0 {
			undec = "no feasible path for " + strconv.Quote(s)
			break
		}
		sp := m.spec(s)
		rejectEnd := "panic"
		if isType {
			rejectEnd = "return TypeUndefined"
		}
		for _, o := range obs {
			if strings.HasPrefix(o.End, "runtime-panic") {
				fail("nopanic", s, "a byte of the path is indexed beyond its length ("+o.End+")")
				continue
			}
			if len(o.Trace) != 0 {
				fail("leaf", s, "a read method performs an effect: "+strings.Join(o.Trace, "; "))
				continue
			}
			if isType && o.End == "panic" {
				fail("nopanic", s, "TypeOfTF panics")
				continue
			}
			switch {
			case sp.wrongHd:
				res["reject"].count++
				if o.End != rejectEnd || len(o.Oracles) != 0 {
					fail("reject", s, "a short path / wrong leading sigil is not rejected: "+o.String())
				}
			case !sp.valid:
				res["hygiene"].count++
				if o.End != rejectEnd {
					fail("hygiene", s, "an empty first segment resolves: "+o.String())
				}
			case m.ct.IsList && !sp.idxOK:
				res["parse"].count++
				if o.End != rejectEnd {
					fail("parse", s, "a non-numeric list segment is not rejected: "+o.String())
				}
			case sp.rest == "":
				res["leaf"].count++
				want := "return self.Get(" + m.segArg(sp) + ")"
				if isType {
					want = "return self.TypeOf(" + m.segArg(sp) + ")"
				}
				if o.End == want {
					continue
				}
				if isType && o.End == "return TypeUndefined" && hasOracle(o, "KeyExists("+m.segArg(sp)+")", false) {
					continue // absent key short-cut
				}
				fail("leaf", s, "expected "+want+", found "+o.String())
			default:
				res["descent"].count++
				getter := getterName(sp.nextIsL)
				want := "return self." + getter + "(" + m.segArg(sp) + ")." + m.method + "(" + strconv.Quote(sp.rest) + ")"
				if o.End == want {
					if isType && !hasOracle(o, "TypeOf("+m.segArg(sp)+")=="+kindConstName(sp.nextIsL), true) {
						fail("nopanic", s, getter+"("+m.segArg(sp)+") is reached without the guard TypeOf(segment) == "+kindConstName(sp.nextIsL)+": a missing / wrong-kind step panics instead of yielding TypeUndefined ("+o.String()+")")
					}
					continue
				}
				if isType && o.End == "return TypeUndefined" && len(o.Oracles) > 0 {
					continue // guard failed
				}
				fail("descent", s, "expected "+want+", found "+o.String())
			}
		}
		// a descent / leaf string must have at least one path that actually resolves
		if sp.valid && (!m.ct.IsList || sp.idxOK) {
			resolves := false
			for _, o := range obs {
				if o.End != rejectEnd {
					resolves = true
				}
			}
			if !resolves {
				fail("descent", s, "a well-formed path is always rejected")
			}
		}
	}
	if undec != "" {
		c.Ob("C10.R1", m.name+"/fold", m.fd.Pos()).Undecided("%s", undec)
		return
	}
	rule2 := "C10.R3"
	if isType {
		rule2 = "C10.R2"
	}
	report := func(rule, key, k, okMsg string) {
		ob := c.Ob(rule, m.name+"/"+key, m.fd.Pos())
		if res[k].bad != "" {
			ob.Fail("%s", res[k].bad)
		} else {
			ob.Ok("%s (%d folded cases)", okMsg, res[k].count)
		}
	}
	report(rule2, "reject", "reject", "len < 2 or a wrong leading sigil is rejected by "+map[bool]string{true: "TypeUndefined", false: "a panic"}[isType])
	report("C10.R4", "leaf-hygiene", "hygiene", "an empty first segment never resolves")
	if m.ct.IsList {
		report(rule2, "parse-failure", "parse", "a non-numeric segment is rejected")
	}
	report("C10.R1", "descent", "descent", "child = self.GetObject/GetList(segment) by the NEXT sigil; continues with "+m.method+" on exactly the rest")
	report("C10.R1", "leaf", "leaf", "leaf = self."+map[bool]string{true: "TypeOf", false: "Get"}[isType]+"(remaining segment)")
	if isType {
		report("C10.R2", "no-panic", "nopanic", "no feasible path panics; every getter is guarded by TypeOf(segment) == needed kind")
	} else {
		report("C10.R3", "no-runtime-panic", "nopanic", "no byte index goes out of range")
	}
}

// ---------------------------------------------------------------- C11

func init() {
	register(&Property{
		ID: "C11",
		Explanation: "SetTF/UnsetTF of both containers are executed symbolically (SX) and folded over all path strings of length <= 5 over {'.', '#', letter, digit} and list lengths 0..3: for every well-formed string the sequence of mutating calls on each feasible path must be exactly the prescribed one — " +
			"object descent: reuse self.GetK(seg) when TypeOf(seg) == TypeK (K = the kind the NEXT sigil needs), otherwise NewK() stored with Set(seg, child); list descent: index >= count => Add(nil) x (index-count) then Add(child), otherwise the reuse-or-Replace(index, child) decision; " +
			"then child.SetTF(rest, value) on that very child; leaves are Set(seg, value) / Replace(index, value) / padded Add(value); UnsetTF descents perform no mutation of the receiver and leaves are Unset(seg) / Delete(index); short paths and wrong sigils panic before any mutation; returns are fluent. " +
			"`GetTF(p) yields v afterwards` follows on paper from these clauses; memory for huge indices is not considered.",
		Rules: []Rule{
			{ID: "C11.R1", Doc: "short path / wrong sigil / non-numeric list segment panic before any mutation; a well-formed path is never rejected", Run: c11Run},
			{ID: "C11.R2", Doc: "reuse-or-replace: TypeOf(seg)==TypeK guard, GetK(seg) reuse, NewK() stored at seg; K is the kind the next sigil needs", Run: func(c *Ctx) {}},
			{ID: "C11.R3", Doc: "list padding: index>=count => Add(nil) x (index-count) then exactly one Add; else Replace(index, …)", Run: func(c *Ctx) {}},
			{ID: "C11.R4", Doc: "frame: exactly the prescribed mutating calls; UnsetTF descents do not mutate; leaves hit the addressed slot; recursion on the child itself", Run: func(c *Ctx) {}},
			{ID: "C11.R7", Doc: "the primitives the writers are built on behave as the model says: list Add/Replace on the folded spine (= C05.R5), object Set (= C06.R1)", Run: func(c *Ctx) {
				n := runAs(c, "C11.R7", c05Sequence, func(o *Obligation) bool {
					return strings.Contains(o.Construct, "(*list).Add/") || strings.Contains(o.Construct, "(*list).Replace/")
				})
				n += runAs(c, "C11.R7", c06Set, nil)
				c.R.Floor("C11.R7", n, 4)
			}},
			{ID: "C11.R6", Doc: "frame: no two containers share storage, so a write through one path is invisible through every other (= OWN, C09.R2)", Run: func(c *Ctx) { c.R.Floor("C11.R6", ownRule(c, "C11.R6"), 3) }},
			{ID: "C11.R10", Doc: "the value written is the value read back: parseVal maps every Go type to the constructor of its kind through value-preserving conversions and the constructors wrap their argument unchanged (= C12.R1)", Run: func(c *Ctx) { c.R.Floor("C11.R10", runAs(c, "C11.R10", c12R1, nil), 10) }},
			{ID: "C11.R9", Doc: "a write replaces the addressed field and touches no other: scalar wrappers are immutable after construction (= C09.R5), so entries that share a wrapper with the written slot keep their value", Run: func(c *Ctx) { c09Immutable(c, "C11.R9") }},
			{ID: "C11.R8", Doc: "TypeOf, which decides reuse-or-replace of an intermediate, reports the stored kind of every field, containers by their interface (= C12.R3)", Run: func(c *Ctx) {
				c.R.Floor("C11.R8", runAs(c, "C11.R8", c12R3, func(o *Obligation) bool { return strings.Contains(o.Construct, "TypeOf") }), 2)
			}},
			{ID: "C11.R5", Doc: "fluent return of SetTF/UnsetTF (registered ego on every path)", Run: c11Fluent},
		},
	})
}

func c11Fluent(c *Ctx) {
	a := c.E3()
	n := 0
	for _, ct := range c.Inv().Conts {
		for _, m := range []string{"SetTF", "UnsetTF"} {
			name := "(*" + ct.Named.Obj().Name() + ")." + m
			fn := a.ByName(name)
			if fn == nil {
				continue
			}
			s := a.sum[fn]
			for i, o := range s.RetEach {
				n++
				c.Ob("C11.R5", name+"#ret"+itoa(i+1), s.RetPos[i]).Check(o&oROOTS == oRECV && o&oVIAEGO != 0 && o&oBARE == 0, "returns the registered ego", "returns origin "+o.String()+", not the registered ego")
			}
		}
	}
	c.R.Floor("C11.R5", n, 4) // at least one return per method (a single-exit rewrite has exactly one)
}

func c11Run(c *Ctx) {
	n := 0
	for _, ct := range c.Inv().Conts {
		for _, meth := range []string{"SetTF", "UnsetTF"} {
			m := newTFM(c, ct, meth)
			if m.fd == nil {
				c.Ob("C11.R1", m.name, token.NoPos).Missing("write method not found")
				continue
			}
			n++
			if m.why != "" {
				c.Ob("C11.R1", m.name, m.fd.Pos()).Undecided("body outside the path vocabulary: %s", m.why)
				continue
			}
			c11Method(c, m, meth == "SetTF")
		}
	}
	c.R.Floor("C11.R1", n, 4)
}

func repeat(s string, n int64) []string {
	var out []string
	for i := int64(0); i < n; i++ {
		out = append(out, s)
	}
	return out
}

func c11Method(c *Ctx, m *tfM, isSet bool) {
	type verdict struct {
		bad   string
		count int
	}
	res := map[string]*verdict{"reject": {}, "triple": {}, "padding": {}, "frame": {}}
	fail := func(k, s string, n int64, w string) {
		if res[k].bad == "" {
			res[k].bad = "path " + strconv.Quote(s) + " (length " + itoa(int(n)) + "): " + w
		}
	}
	undec := ""
	lens := []int64{0}
	if m.ct.IsList {
		lens = []int64{0, 1, 2, 3}
	}
outer:
	for _, s := range c.tfStrings(m.fd) {
		sp := m.spec(s)
		if !sp.wrongHd && !sp.valid {
			continue // empty first segment: outside C11's well-formed paths
		}
		for _, n := range lens {
			obs, why := m.observe(s, n)
			if why != "" {
				undec = "path " + strconv.Quote(s) + ": " + why
				break outer
			}
			if len(obs) == 0 {
				undec = "no feasible path for " + strconv.Quote(s)
				break outer
			}
			for _, o := range obs {
				if strings.HasPrefix(o.End, "runtime-panic") {
					fail("reject", s, n, "a byte of the path is indexed beyond its length")
					continue
				}
				if sp.wrongHd || (m.ct.IsList && !sp.idxOK) {
					res["reject"].count++
					if o.End != "panic" || len(o.Trace) != 0 {
						fail("reject", s, n, "an ill-formed path does not panic before any mutation: "+o.String())
					}
					continue
				}
				if o.End == "panic" {
					fail("reject", s, n, "a well-formed path panics: "+o.String())
					continue
				}
				seg := m.segArg(sp)
				var want [][]string // alternatives
				leaf := sp.rest == ""
				K := sp.nextIsL
				childNew := ctorName(K) + "()"
				childOld := "self." + getterName(K) + "(" + seg + ")"
				rec := func(child string) string {
					if isSet {
						return child + ".SetTF(" + strconv.Quote(sp.rest) + ", value)"
					}
					return child + ".UnsetTF(" + strconv.Quote(sp.rest) + ")"
				}
				kindAtom := "TypeOf(" + seg + ")==" + kindConstName(K)
				guardTrue := hasOracle(o, kindAtom, true)
				guardFalse := hasOracle(o, kindAtom, false)
				switch {
				case !isSet && leaf && !m.ct.IsList:
					want = [][]string{{"self.Unset(" + seg + ")"}}
				case !isSet && leaf:
					want = [][]string{{"self.Delete(" + seg + ")"}}
				case !isSet:
					want = [][]string{{rec(childOld)}}
				case leaf && !m.ct.IsList:
					want = [][]string{{"self.Set(" + seg + ", value)"}}
				case leaf:
					res["padding"].count++
					if sp.idx >= n {
						want = [][]string{append(repeat("self.Add(nil)", sp.idx-n), "self.Add(value)")}
					} else {
						want = [][]string{{"self.Replace(" + seg + ", value)"}}
					}
				case !m.ct.IsList:
					res["triple"].count++
					if guardTrue {
						want = [][]string{{rec(childOld)}}
					} else if guardFalse {
						want = [][]string{{"self.Set(" + seg + ", " + childNew + ")", rec(childNew)}}
					} else {
						fail("triple", s, n, "the reuse-or-replace decision is not `self.TypeOf(segment) == "+kindConstName(K)+"`: an existing intermediate of another kind is 'reused' (and the getter panics) instead of being replaced — "+o.String())
						continue
					}
				default:
					res["padding"].count++
					if sp.idx >= n {
						want = [][]string{append(append(repeat("self.Add(nil)", sp.idx-n), "self.Add("+childNew+")"), rec(childNew))}
					} else {
						res["triple"].count++
						if guardTrue {
							want = [][]string{{rec(childOld)}}
						} else if guardFalse {
							want = [][]string{{"self.Replace(" + seg + ", " + childNew + ")", rec(childNew)}}
						} else {
							fail("triple", s, n, "the reuse-or-replace decision is not `self.TypeOf(index) == "+kindConstName(K)+"` — "+o.String())
							continue
						}
					}
				}
				res["frame"].count++
				got := strings.Join(o.Trace, "; ")
				match := false
				for _, w := range want {
					if got == strings.Join(w, "; ") {
						match = true
					}
				}
				if !match {
					k := "frame"
					if strings.Contains(got, "Add(nil)") || (len(want) > 0 && len(want[0]) > 0 && strings.Contains(want[0][0], "Add(nil)")) || (m.ct.IsList && isSet && sp.idx >= n) {
						k = "padding"
					}
					fail(k, s, n, "mutating calls are ["+got+"], prescribed ["+strings.Join(want[0], "; ")+"]")
				}
			}
		}
	}
	if undec != "" {
		c.Ob("C11.R1", m.name+"/fold", m.fd.Pos()).Undecided("%s", undec)
		return
	}
	report := func(rule, key, k, okMsg string) {
		ob := c.Ob(rule, m.name+"/"+key, m.fd.Pos())
		if res[k].bad != "" {
			ob.Fail("%s", res[k].bad)
		} else {
			ob.Ok("%s (%d folded cases)", okMsg, res[k].count)
		}
	}
	report("C11.R1", "reject", "reject", "ill-formed paths panic before any mutation; well-formed paths are never rejected")
	if isSet {
		report("C11.R2", "reuse-or-replace", "triple", "guard TypeOf(seg) == kind the next sigil needs; reuse self.GetK(seg); else NewK() stored at seg")
		if m.ct.IsList {
			report("C11.R3", "padding", "padding", "index >= count: Add(nil) exactly index-count times, then one Add => the new element lands at `index`; otherwise Replace(index, …)")
		}
	}
	report("C11.R4", "frame", "frame", "exactly the prescribed mutating calls, on the addressed slot and on the child itself")
}

// keep sort imported for deterministic helpers
var _ = sort.Strings

// termEpoch: the memory epoch at which a call / len term was evaluated.
func termEpoch(t Term) int {
	switch x := t.(type) {
	case TCall:
		return x.Epoch
	case TBuiltin:
		return x.Epoch
	}
	return -1
}
