package main

// E7 — tree-form (TF) conformance: C10 (reads) and C11 (writes).

import (
	"go/ast"
	"go/token"
	"go/types"
	"strings"
)

type tfSkel struct {
	c      *Ctx
	fd     *ast.FuncDecl
	ct     *Cont
	name   string
	method string
	tf     types.Object
	reject *ast.IfStmt
	dot    types.Object
	hash   types.Object
	dotBr  *ast.IfStmt
	hashBr *ast.IfStmt
	order  []*ast.IfStmt // branch ifs in source order
	leaf   []ast.Stmt
	alias  map[types.Object]ast.Expr // single-assignment locals -> defining expression
	multi  map[types.Object][]ast.Expr
	why    string
}

func (s *tfSkel) ownSigil() rune {
	if s.ct.IsList {
		return '#'
	}
	return '.'
}

func extractTF(c *Ctx, ct *Cont, method string) *tfSkel {
	name := "(*" + ct.Named.Obj().Name() + ")." + method
	fd := c.Decl(name)
	s := &tfSkel{c: c, ct: ct, name: name, method: method, fd: fd, alias: map[types.Object]ast.Expr{}, multi: map[types.Object][]ast.Expr{}}
	if fd == nil {
		s.why = "no implementation"
		return s
	}
	if fd.Type.Params == nil || len(fd.Type.Params.List) == 0 || len(fd.Type.Params.List[0].Names) == 0 {
		s.why = "no path parameter"
		return s
	}
	s.tf = c.Info.Defs[fd.Type.Params.List[0].Names[0]]
	// aliases: locals defined exactly once
	counts := map[types.Object]int{}
	ast.Inspect(fd.Body, func(n ast.Node) bool {
		switch x := n.(type) {
		case *ast.AssignStmt:
			for i, l := range x.Lhs {
				o := c.obj(l)
				if o == nil {
					continue
				}
				counts[o]++
				if len(x.Lhs) == len(x.Rhs) {
					s.multi[o] = append(s.multi[o], x.Rhs[i])
				} else if len(x.Rhs) == 1 {
					s.multi[o] = append(s.multi[o], x.Rhs[0])
				}
			}
		case *ast.IncDecStmt:
			if o := c.obj(x.X); o != nil {
				counts[o] += 2
			}
		case *ast.UnaryExpr:
			if x.Op == token.AND {
				if o := c.obj(x.X); o != nil {
					counts[o] += 2
				}
			}
		}
		return true
	})
	for o, n := range counts {
		if o == s.tf {
			continue
		}
		if n == 1 && len(s.multi[o]) == 1 {
			s.alias[o] = s.multi[o][0]
		}
	}
	body := fd.Body.List
	if len(body) < 4 {
		s.why = "body too short for the tree-form skeleton"
		return s
	}
	r, ok := body[0].(*ast.IfStmt)
	if !ok || r.Else != nil || r.Init != nil {
		s.why = "first statement is not the reject test"
		return s
	}
	s.reject = r
	i := 1
	// strip: tf = tf[1:]
	as, ok := body[i].(*ast.AssignStmt)
	if !ok || as.Tok != token.ASSIGN || len(as.Lhs) != 1 || c.obj(as.Lhs[0]) != s.tf {
		s.why = "second statement is not `tf = tf[1:]`"
		return s
	}
	se, ok := unparen(as.Rhs[0]).(*ast.SliceExpr)
	if !ok || c.obj(se.X) != s.tf || se.High != nil || se.Low == nil {
		s.why = "path is not stripped by tf[1:]"
		return s
	}
	if k, ok := c.constInt(se.Low); !ok || k != 1 {
		s.why = "path is not stripped by exactly one byte"
		return s
	}
	i++
	for ; i < len(body); i++ {
		as, ok := body[i].(*ast.AssignStmt)
		if !ok || as.Tok != token.DEFINE || len(as.Lhs) != 1 || len(as.Rhs) != 1 {
			break
		}
		call, ok := unparen(as.Rhs[0]).(*ast.CallExpr)
		if !ok || c.calleeFull(call) != "strings.Index" || len(call.Args) != 2 || c.obj(call.Args[0]) != s.tf {
			break
		}
		sep, _ := c.constString(call.Args[1])
		switch sep {
		case ".":
			s.dot = c.obj(as.Lhs[0])
		case "#":
			s.hash = c.obj(as.Lhs[0])
		default:
			s.why = "strings.Index with an unexpected separator"
			return s
		}
	}
	if s.dot == nil || s.hash == nil {
		s.why = "positions of the next '.' and '#' are not both computed with strings.Index(tf, …)"
		return s
	}
	if counts[s.dot] != 1 || counts[s.hash] != 1 || counts[s.tf] != 1 {
		s.why = "path or sigil positions are reassigned"
		return s
	}
	for ; i < len(body); i++ {
		is, ok := body[i].(*ast.IfStmt)
		if !ok || is.Else != nil || is.Init != nil {
			break
		}
		d, ok1 := s.evalBranch(is.Cond, 1, -1)
		h, ok2 := s.evalBranch(is.Cond, -1, 1)
		if !ok1 || !ok2 {
			break
		}
		switch {
		case d && !h && s.dotBr == nil:
			s.dotBr = is
		case h && !d && s.hashBr == nil:
			s.hashBr = is
		default:
			s.why = "a branch condition is neither the '.'-descent nor the '#'-descent test"
			return s
		}
		s.order = append(s.order, is)
		if !blockTerminates(c, is.Body) {
			s.why = "a descent branch can fall through into the next branch"
			return s
		}
	}
	if s.dotBr == nil || s.hashBr == nil {
		s.why = "the two descent branches were not found"
		return s
	}
	s.leaf = body[i:]
	if len(s.leaf) == 0 {
		s.why = "no leaf statements"
	}
	return s
}

func blockTerminates(c *Ctx, b *ast.BlockStmt) bool {
	if len(b.List) == 0 {
		return false
	}
	switch x := b.List[len(b.List)-1].(type) {
	case *ast.ReturnStmt:
		return true
	case *ast.ExprStmt:
		if call, ok := x.X.(*ast.CallExpr); ok && c.isBuiltin(call, "panic") {
			return true
		}
	}
	return false
}

func (s *tfSkel) evalBranch(cond ast.Expr, dot, hash int64) (bool, bool) {
	ev := &evalEnv{c: s.c, vars: map[types.Object]int64{s.dot: dot, s.hash: hash}}
	return ev.bool(cond)
}

// evalReject folds the reject condition for a concrete (len, c0, c1). oob reports an unguarded tf[k].
func (s *tfSkel) evalReject(L int64, c0, c1 rune) (val, ok, oob bool) {
	ev := &evalEnv{c: s.c}
	ev.hook = func(e ast.Expr) (int64, bool) {
		switch x := e.(type) {
		case *ast.CallExpr:
			if s.c.isBuiltin(x, "len") && len(x.Args) == 1 && s.c.obj(x.Args[0]) == s.tf {
				return L, true
			}
		case *ast.IndexExpr:
			if s.c.obj(x.X) == s.tf {
				if k, isC := s.c.constInt(x.Index); isC {
					if k < 0 || k >= L {
						oob = true
						return 0, true
					}
					if k == 0 {
						return int64(c0), true
					}
					if k == 1 {
						return int64(c1), true
					}
				}
			}
		}
		return 0, false
	}
	val, ok = ev.bool(s.reject.Cond)
	return
}

// resolve follows single-assignment aliases.
func (s *tfSkel) resolve(e ast.Expr) ast.Expr {
	for k := 0; k < 8; k++ {
		e = unparen(e)
		id, ok := e.(*ast.Ident)
		if !ok {
			return e
		}
		d, ok := s.alias[s.c.obj(id)]
		if !ok {
			return e
		}
		e = d
	}
	return e
}

// isSeg: e is tf[:p] (through aliases).
func (s *tfSkel) isSeg(e ast.Expr, p types.Object) bool {
	se, ok := s.resolve(e).(*ast.SliceExpr)
	return ok && s.c.obj(se.X) == s.tf && se.Low == nil && se.High != nil && s.c.obj(se.High) == p && se.Max == nil
}

// isRest: e is tf[p:].
func (s *tfSkel) isRest(e ast.Expr, p types.Object) bool {
	se, ok := s.resolve(e).(*ast.SliceExpr)
	return ok && s.c.obj(se.X) == s.tf && se.High == nil && se.Low != nil && s.c.obj(se.Low) == p
}

// parseIntOf: e (through aliases and an int(...) conversion) is the value result of strconv.ParseInt/Atoi(arg, …); returns arg and the error variable.
func (s *tfSkel) parseIntOf(e ast.Expr) (arg ast.Expr, errVar types.Object, ok bool) {
	e = s.resolve(e)
	if call, isCall := e.(*ast.CallExpr); isCall && len(call.Args) == 1 {
		if tv, isT := s.c.Info.Types[call.Fun]; isT && tv.IsType() {
			if b, isB := tv.Type.Underlying().(*types.Basic); isB && b.Kind() == types.Int {
				e = unparen(call.Args[0])
			}
		}
	}
	id, isId := e.(*ast.Ident)
	if !isId {
		return nil, nil, false
	}
	o := s.c.obj(id)
	// find the defining statement `o, err := strconv.ParseInt(arg, …)`
	var res ast.Expr
	var ev types.Object
	n := 0
	ast.Inspect(s.fd.Body, func(m ast.Node) bool {
		as, isAs := m.(*ast.AssignStmt)
		if !isAs || len(as.Lhs) != 2 || len(as.Rhs) != 1 || s.c.obj(as.Lhs[0]) != o {
			return true
		}
		n++
		call, isCall := unparen(as.Rhs[0]).(*ast.CallExpr)
		if !isCall {
			return true
		}
		switch s.c.calleeFull(call) {
		case "strconv.ParseInt", "strconv.Atoi", "strconv.ParseUint":
			res = call.Args[0]
			ev = s.c.obj(as.Lhs[1])
		}
		return true
	})
	if n != 1 || res == nil {
		return nil, nil, false
	}
	return res, ev, true
}

// selfCall: call is self.<name>(args…) on the logical receiver.
func (s *tfSkel) selfCall(e ast.Expr) (name string, call *ast.CallExpr) {
	call, ok := unparen(e).(*ast.CallExpr)
	if !ok {
		return "", nil
	}
	sel, ok := unparen(call.Fun).(*ast.SelectorExpr)
	if !ok || !s.c.isSelf(s.fd, sel.X) {
		return "", nil
	}
	f := s.c.callee(call)
	if f == nil {
		return "", nil
	}
	return f.Name(), call
}

// segArgOK: argument x of a getter/mutator denotes the branch's segment: object: tf[:p]; list: int(ParseInt(tf[:p])).
func (s *tfSkel) segArgOK(x ast.Expr, p types.Object) bool {
	if !s.ct.IsList {
		return s.isSeg(x, p)
	}
	arg, _, ok := s.parseIntOf(x)
	return ok && s.isSeg(arg, p)
}

// leafArgOK: argument denotes the whole remaining path.
func (s *tfSkel) leafArgOK(x ast.Expr) bool {
	if !s.ct.IsList {
		return s.c.obj(s.resolve(x)) == s.tf
	}
	arg, _, ok := s.parseIntOf(x)
	return ok && s.c.obj(s.resolve(arg)) == s.tf
}

func kindConstName(list bool) string {
	if list {
		return "TypeList"
	}
	return "TypeObject"
}

func getterName(list bool) string {
	if list {
		return "GetList"
	}
	return "GetObject"
}

func ctorName(list bool) string {
	if list {
		return "NewList"
	}
	return "NewObject"
}

// ---------------------------------------------------------------- common skeleton obligations

func tfSkeletonRule(c *Ctx, rule string, s *tfSkel, read bool) bool {
	ob := c.Ob(rule, s.name+"/skeleton", posOf(s.fd))
	if s.why != "" {
		ob.Undecided("tree-form skeleton not recognised: %s", s.why)
		return false
	}
	ob.Ok("reject test, strip of the own sigil, positions of next '.' and '#', '.'-branch, '#'-branch, leaf")
	own := s.ownSigil()
	// reject predicate over the finite domain len in {0..3} x c0 x c1
	rob := c.Ob(rule, s.name+"/reject", s.reject.Pos())
	good, why := true, ""
	chars := []rune{'.', '#', 'a'}
	notRejectedSigil := map[rune]bool{}
	for L := int64(0); L <= 3 && good; L++ {
		for _, c0 := range chars {
			for _, c1 := range chars {
				v, ok, oob := s.evalReject(L, c0, c1)
				if !ok {
					good, why = false, "reject condition outside the vocabulary"
					break
				}
				if oob {
					good, why = false, "tf[k] is evaluated although len(tf) <= k (index out of range for a short path)"
					break
				}
				must := L < 2 || c0 != own
				if must && !v {
					good, why = false, "a path with len="+itoa(int(L))+" starting with '"+string(c0)+"' is not rejected"
				}
				if !must && c1 == 'a' && v {
					good, why = false, "a well-formed path (own sigil, non-empty first segment) is rejected"
				}
				if !must && c1 != 'a' && !v {
					notRejectedSigil[c1] = true
				}
			}
		}
	}
	if good {
		rob.Ok("rejects exactly: len < 2, wrong leading sigil%s (folded over len 0..3 x first two bytes in {'.','#',other})", map[bool]string{true: "", false: ", and an empty first segment"}[len(notRejectedSigil) > 0])
	} else {
		rob.Fail("%s", why)
	}
	// branch predicates over the order types of (dot, hash), first matching branch in source order
	bob := c.Ob(rule, s.name+"/branch-predicates", s.dotBr.Pos())
	vals := []int64{-1, 0, 1, 2, 3}
	good, why = true, ""
	hygiene := true
	hyWhy := ""
	for _, d := range vals {
		for _, h := range vals {
			if d == h && d >= 0 {
				continue
			}
			choice := "leaf"
			for _, br := range s.order {
				v, ok := s.evalBranch(br.Cond, d, h)
				if !ok {
					good, why = false, "branch condition outside the vocabulary"
					break
				}
				if v {
					if br == s.dotBr {
						choice = "dot"
					} else {
						choice = "hash"
					}
					break
				}
			}
			emptyFirst := d == 0 || h == 0
			if !emptyFirst {
				want := "leaf"
				if d > 0 && (h < 0 || d < h) {
					want = "dot"
				} else if h > 0 && (d < 0 || h < d) {
					want = "hash"
				}
				if choice != want {
					good, why = false, "for dot="+itoa(int(d))+" hash="+itoa(int(h))+" the "+choice+" branch is taken, the next sigil demands "+want
				}
				continue
			}
			// empty first segment: only reachable when the reject test lets the sigil through
			sig := '.'
			if h == 0 {
				sig = '#'
			}
			if !notRejectedSigil[sig] {
				continue
			}
			if read {
				if choice != "leaf" {
					hygiene, hyWhy = false, "with an empty first segment (dot="+itoa(int(d))+" hash="+itoa(int(h))+") the "+choice+" branch descends through the empty key/index"
				} else if !s.ct.IsList {
					hygiene, hyWhy = false, "with an empty first segment the leaf looks up a key that still contains the sigil (dot="+itoa(int(d))+" hash="+itoa(int(h))+"): the path resolves although a segment is empty"
				}
			}
		}
	}
	if good {
		bob.Ok("first matching branch equals `next sigil is '.'` / `next sigil is '#'` on all order types of (dot, hash) with a non-empty first segment")
	} else {
		bob.Fail("%s", why)
	}
	if read {
		hob := c.Ob(strings.Split(rule, ".")[0]+".R4", s.name+"/leaf-hygiene", s.reject.Pos())
		if hygiene {
			hob.Ok("the leaf is reached only with a sigil-free segment, or (list) through an integer parser that rejects sigils; an empty first segment is rejected")
		} else {
			hob.Fail("%s", hyWhy)
		}
	}
	// every slice of tf inside a branch uses that branch's own position
	for _, br := range []struct {
		is *ast.IfStmt
		p  types.Object
		nm string
	}{{s.dotBr, s.dot, "dot"}, {s.hashBr, s.hash, "hash"}} {
		sob := c.Ob(rule, s.name+"/"+br.nm+"-slices", br.is.Pos())
		bad := ""
		nSeg, nRest := 0, 0
		ast.Inspect(br.is.Body, func(n ast.Node) bool {
			se, ok := n.(*ast.SliceExpr)
			if !ok || c.obj(se.X) != s.tf {
				return true
			}
			switch {
			case se.Low == nil && se.High != nil && c.obj(se.High) == br.p:
				nSeg++
			case se.High == nil && se.Low != nil && c.obj(se.Low) == br.p:
				nRest++
			default:
				bad = "slice " + exprStr(se) + " does not cut at this branch's own sigil position"
			}
			return true
		})
		// aliases defined outside the branch are resolved by isSeg/isRest where used; count only direct uses here
		if bad != "" {
			sob.Fail("%s", bad)
		} else {
			sob.Ok("segment = tf[:%s], rest = tf[%s:] (%d/%d uses)", br.nm, br.nm, nSeg, nRest)
		}
	}
	return true
}

func posOf(fd *ast.FuncDecl) token.Pos {
	if fd == nil {
		return token.NoPos
	}
	return fd.Pos()
}

// ---------------------------------------------------------------- C10

func init() {
	register(&Property{
		ID: "C10",
		Explanation: "The four read methods (GetTF, TypeOfTF of both containers) are matched against a semantic skeleton: the reject predicate is folded over the finite domain len x first two bytes; the branch predicates are decided over all order types of (dot, hash) " +
			"(they are touched only through comparisons with each other and 0); segment and rest must be tf[:p] / tf[p:] of the branch's own p; descents must go through the getter of the kind the next sigil demands and continue with the same read method on the rest; " +
			"the leaf is Get/TypeOf of the whole remaining segment; list segments go through an integer parser whose failure leads to the reject action. TypeOfTF: every panicking getter is dominated by the matching TypeOf guard on the same receiver and argument. " +
			"Equality of the returned value follows by induction over segments (on paper). Hexadecimal/signed index spellings are outside the property's path grammar.",
		Rules: []Rule{
			{ID: "C10.R1", Doc: "GetTF/TypeOfTF follow the semantic skeleton (reject predicate, branch predicates over order types, tf[:p]/tf[p:], kind-correct descent, leaf)", Run: c10Run},
			{ID: "C10.R2", Doc: "TypeOfTF never panics: every may-panic getter is dominated by the matching kind guard; reject and parse failure return TypeUndefined", Run: func(c *Ctx) {}},
			{ID: "C10.R3", Doc: "GetTF rejects by panicking and descends through the panicking getters", Run: func(c *Ctx) {}},
			{ID: "C10.R4", Doc: "leaf hygiene: an empty first segment never resolves", Run: func(c *Ctx) {}},
			{ID: "C10.R5", Doc: "PURE: tree-form reads write nothing", Run: func(c *Ctx) {
				c.R.Floor("C10.R5", pureRule(c, "C10.R5", []string{"(*list).GetTF", "(*list).TypeOfTF", "(*object).GetTF", "(*object).TypeOfTF"}), 4)
			}},
		},
	})
}

func c10Run(c *Ctx) {
	n := 0
	for _, ct := range c.Inv().Conts {
		for _, m := range []string{"GetTF", "TypeOfTF"} {
			s := extractTF(c, ct, m)
			if s.fd == nil {
				c.Ob("C10.R1", s.name, token.NoPos).Missing("read method not found")
				continue
			}
			n++
			if !tfSkeletonRule(c, "C10.R1", s, true) {
				continue
			}
			isType := m == "TypeOfTF"
			// reject action
			if isType {
				c.Ob("C10.R2", s.name+"/reject-action", s.reject.Pos()).Check(returnsUndefined(c, s.reject.Body), "reject action returns TypeUndefined", "reject action of TypeOfTF is not `return TypeUndefined`")
			} else {
				c.Ob("C10.R3", s.name+"/reject-action", s.reject.Pos()).Check(blockPanicsOnly(c, s.reject.Body.List), "reject action panics", "reject action of GetTF is not a panic")
			}
			// descents
			for _, br := range []struct {
				is   *ast.IfStmt
				p    types.Object
				list bool
				nm   string
			}{{s.dotBr, s.dot, false, "dot"}, {s.hashBr, s.hash, true, "hash"}} {
				c10Descent(c, s, br.is, br.p, br.list, br.nm, isType)
			}
			c10Leaf(c, s, isType)
		}
	}
	c.R.Floor("C10.R1", n, 4)
}

func returnsUndefined(c *Ctx, b *ast.BlockStmt) bool {
	r := singleReturn(b)
	if r == nil || len(r.Results) != 1 {
		return false
	}
	k, ok := c.obj(r.Results[0]).(*types.Const)
	return ok && k.Name() == "TypeUndefined"
}

// parseFailureOK: for list methods, every `if err != nil` on the parse error inside stmts performs the reject action.
func c10ParseFailure(c *Ctx, s *tfSkel, stmts []ast.Stmt, where string, isType bool, rule string) {
	if !s.ct.IsList {
		return
	}
	found := 0
	for _, st := range stmts {
		is, ok := st.(*ast.IfStmt)
		if !ok {
			continue
		}
		be, ok := unparen(is.Cond).(*ast.BinaryExpr)
		if !ok || be.Op != token.NEQ || !c.isNil(be.Y) {
			continue
		}
		if t := c.typeOf(be.X); t == nil || !types.Identical(t, types.Universe.Lookup("error").Type()) {
			continue
		}
		found++
		ob := c.Ob(rule, s.name+"/"+where+"-parse-failure", is.Pos())
		if isType {
			ob.Check(returnsUndefined(c, is.Body), "non-numeric segment => TypeUndefined", "a non-numeric segment does not lead to `return TypeUndefined`")
		} else {
			ob.Check(blockPanicsOnly(c, is.Body.List), "non-numeric segment => panic", "a non-numeric segment does not lead to a panic")
		}
	}
	if found == 0 {
		c.Ob(rule, s.name+"/"+where+"-parse-failure", token.NoPos).Fail("the integer parser's error is not tested in the %s part", where)
	}
}

func c10Descent(c *Ctx, s *tfSkel, is *ast.IfStmt, p types.Object, list bool, nm string, isType bool) {
	ob := c.Ob("C10.R1", s.name+"/"+nm+"-descent", is.Pos())
	rule2 := "C10.R3"
	if isType {
		rule2 = "C10.R2"
	}
	c10ParseFailure(c, s, is.Body.List, nm, isType, rule2)
	last, ok := is.Body.List[len(is.Body.List)-1].(*ast.ReturnStmt)
	if !ok || len(last.Results) != 1 {
		ob.Fail("branch does not end in `return child.%s(rest)`", s.method)
		return
	}
	outer, ok := unparen(last.Results[0]).(*ast.CallExpr)
	if !ok || len(outer.Args) != 1 {
		ob.Fail("branch does not return a call of %s on the child", s.method)
		return
	}
	osel, ok := unparen(outer.Fun).(*ast.SelectorExpr)
	ocal := c.callee(outer)
	if !ok || ocal == nil || ocal.Name() != s.method {
		ob.Fail("the descent continues with %s, not with %s", exprStr(outer.Fun), s.method)
		return
	}
	if !s.isRest(outer.Args[0], p) {
		ob.Fail("the child is asked for %s, not for the rest tf[%s:]", exprStr(outer.Args[0]), nm)
		return
	}
	gname, gcall := s.selfCall(s.resolve(osel.X))
	if gcall == nil || gname != getterName(list) || len(gcall.Args) != 1 {
		ob.Fail("the child is not obtained through self.%s(segment): the next sigil '%s' demands a %s", getterName(list), map[bool]string{true: "#", false: "."}[list], map[bool]string{true: "List", false: "Object"}[list])
		return
	}
	if !s.segArgOK(gcall.Args[0], p) {
		ob.Fail("the getter's argument %s is not the segment tf[:%s]%s", exprStr(gcall.Args[0]), nm, map[bool]string{true: " parsed as an integer", false: ""}[s.ct.IsList])
		return
	}
	ob.Ok("child = self.%s(tf[:%s]); return child.%s(tf[%s:])", getterName(list), nm, s.method, nm)
	if !isType {
		return
	}
	// TypeOfTF: the getter must be dominated by `if … self.TypeOf(seg) != TypeK … { return TypeUndefined }` in the same block
	gob := c.Ob("C10.R2", s.name+"/"+nm+"-guard", gcall.Pos())
	guarded := false
	for _, st := range is.Body.List[:len(is.Body.List)-1] {
		gi, ok := st.(*ast.IfStmt)
		if !ok || gi.Else != nil || !returnsUndefined(c, gi.Body) {
			continue
		}
		for _, d := range splitOr(gi.Cond) {
			be, ok := unparen(d).(*ast.BinaryExpr)
			if !ok || be.Op != token.NEQ {
				continue
			}
			tn, tcall := s.selfCall(be.X)
			k, isK := c.obj(be.Y).(*types.Const)
			if tcall == nil {
				tn, tcall = s.selfCall(be.Y)
				k, isK = c.obj(be.X).(*types.Const)
			}
			if tcall != nil && tn == "TypeOf" && isK && k.Name() == kindConstName(list) && len(tcall.Args) == 1 && s.segArgOK(tcall.Args[0], p) {
				guarded = true
			}
		}
	}
	gob.Check(guarded, "dominated by `self.TypeOf(segment) != "+kindConstName(list)+" => return TypeUndefined` (TypeOf itself never panics), so "+getterName(list)+" cannot panic here",
		getterName(list)+"(segment) is not preceded by the guard `self.TypeOf(segment) != "+kindConstName(list)+" => return TypeUndefined`: a missing / wrong-kind step panics instead of yielding TypeUndefined")
}

func c10Leaf(c *Ctx, s *tfSkel, isType bool) {
	ob := c.Ob("C10.R1", s.name+"/leaf", s.leaf[0].Pos())
	rule2 := "C10.R3"
	if isType {
		rule2 = "C10.R2"
	}
	c10ParseFailure(c, s, s.leaf, "leaf", isType, rule2)
	last, ok := s.leaf[len(s.leaf)-1].(*ast.ReturnStmt)
	if !ok || len(last.Results) != 1 {
		ob.Fail("leaf does not end in a return")
		return
	}
	want := "Get"
	if isType {
		want = "TypeOf"
	}
	nm, call := s.selfCall(last.Results[0])
	if call == nil || nm != want || len(call.Args) != 1 || !s.leafArgOK(call.Args[0]) {
		ob.Fail("leaf is not `return self.%s(<whole remaining segment>)`", want)
		return
	}
	// other statements of the leaf may only be the parse and its failure test, and (TypeOfTF) guards returning TypeUndefined
	for _, st := range s.leaf[:len(s.leaf)-1] {
		switch x := st.(type) {
		case *ast.AssignStmt:
			continue
		case *ast.IfStmt:
			if isType && x.Else == nil && returnsUndefined(c, x.Body) {
				continue
			}
			if !isType && x.Else == nil && blockPanicsOnly(c, x.Body.List) {
				continue
			}
		}
		ob.Fail("unexpected statement in the leaf")
		return
	}
	ob.Ok("leaf = self.%s(remaining segment)", want)
}

// ---------------------------------------------------------------- C11

func init() {
	register(&Property{
		ID: "C11",
		Explanation: "SetTF/UnsetTF of both containers share the tree-form skeleton of C10 (same finite decisions for reject and branch predicates; a well-formed path is never rejected). Decided on top: the reuse-or-replace triple of every SetTF descent " +
			"(guard TypeOf(seg) == TypeK, reuse GetK(seg), else NewK() stored at seg, one kind K = the kind the next sigil needs), list padding (Add(nil) exactly index-count times with the count captured before the loop, then one Add; otherwise Replace(index)), " +
			"the mutation frame (no other mutator calls on the receiver; UnsetTF descents perform no mutation; leaves are Set/Replace/Add resp. Unset/Delete of the addressed slot), recursion on the reused child itself, and the fluent return. " +
			"`GetTF(p) yields v afterwards` follows on paper from these clauses; memory for huge indices is not considered.",
		Rules: []Rule{
			{ID: "C11.R1", Doc: "SetTF/UnsetTF follow the tree-form skeleton (reject predicate, branch predicates over order types, tf[:p]/tf[p:])", Run: c11Run},
			{ID: "C11.R2", Doc: "reuse-or-replace triple: TypeOf(seg)==TypeK guard, GetK(seg) reuse, NewK() stored at seg; K is the kind the next sigil needs", Run: func(c *Ctx) {}},
			{ID: "C11.R3", Doc: "list padding: index>=count => Add(nil) x (index-count) with count captured before the loop, then exactly one Add; else Replace(index, …)", Run: func(c *Ctx) {}},
			{ID: "C11.R4", Doc: "frame: only the padding, the one store at the addressed segment and the recursive call mutate; UnsetTF descents do not mutate; leaves hit the addressed slot", Run: func(c *Ctx) {}},
			{ID: "C11.R5", Doc: "fluent return of SetTF/UnsetTF (registered ego on every path)", Run: c11Fluent},
		},
	})
}

func c11Fluent(c *Ctx) {
	a := c.E3()
	n := 0
	for _, ct := range c.Inv().Conts {
		for _, m := range []string{"SetTF", "UnsetTF"} {
			name := "(*" + ct.Named.Obj().Name() + ")." + m
			fn := a.ByName(name)
			if fn == nil {
				continue
			}
			s := a.sum[fn]
			for i, o := range s.RetEach {
				n++
				c.Ob("C11.R5", name+"#ret"+itoa(i+1), s.RetPos[i]).Check(o&oROOTS == oRECV && o&oVIAEGO != 0 && o&oBARE == 0, "returns the registered ego", "returns origin "+o.String()+", not the registered ego")
			}
		}
	}
	c.R.Floor("C11.R5", n, 12)
}

func c11Run(c *Ctx) {
	n := 0
	for _, ct := range c.Inv().Conts {
		for _, m := range []string{"SetTF", "UnsetTF"} {
			s := extractTF(c, ct, m)
			if s.fd == nil {
				c.Ob("C11.R1", s.name, token.NoPos).Missing("write method not found")
				continue
			}
			n++
			if !tfSkeletonRule(c, "C11.R1", s, false) {
				continue
			}
			c.Ob("C11.R1", s.name+"/reject-action", s.reject.Pos()).Check(blockPanicsOnly(c, s.reject.Body.List), "reject action panics before any mutation", "reject action is not a panic")
			for _, br := range []struct {
				is   *ast.IfStmt
				p    types.Object
				list bool
				nm   string
			}{{s.dotBr, s.dot, false, "dot"}, {s.hashBr, s.hash, true, "hash"}} {
				c10ParseFailure(c, s, br.is.Body.List, br.nm, false, "C11.R1")
				if m == "SetTF" {
					c11SetDescent(c, s, br.is, br.p, br.list, br.nm)
				} else {
					c11UnsetDescent(c, s, br.is, br.p, br.list, br.nm)
				}
			}
			c10ParseFailure(c, s, s.leaf, "leaf", false, "C11.R1")
			if m == "SetTF" {
				c11SetLeaf(c, s)
			} else {
				c11UnsetLeaf(c, s)
			}
		}
	}
	c.R.Floor("C11.R1", n, 4)
}

// selfMutatorCalls lists calls self.<mutator>(…) in stmts (not descending into function literals).
func (s *tfSkel) selfCallsIn(n ast.Node) []*ast.CallExpr {
	var out []*ast.CallExpr
	inspectNoLit(n, func(m ast.Node) bool {
		if ce, ok := m.(*ast.CallExpr); ok {
			if nm, call := s.selfCall(ce); call != nil && nm != "" {
				out = append(out, call)
			}
		}
		return true
	})
	return out
}

func (s *tfSkel) valueParam() types.Object {
	ps := s.fd.Type.Params.List
	k := 0
	for _, f := range ps {
		for _, nm := range f.Names {
			if k == 1 {
				return s.c.Info.Defs[nm]
			}
			k++
		}
	}
	return nil
}

// reuseOrReplace checks `if self.TypeOf(seg) == TypeK { child = self.GetK(seg) } else { child = NewK(); self.<store>(seg, child) }`.
func c11Triple(c *Ctx, s *tfSkel, is *ast.IfStmt, p types.Object, list bool, nm string, child types.Object, store string) {
	ob := c.Ob("C11.R2", s.name+"/"+nm+"-reuse-or-replace", is.Pos())
	K := map[bool]string{true: "List", false: "Object"}[list]
	be, ok := unparen(is.Cond).(*ast.BinaryExpr)
	if !ok || be.Op != token.EQL {
		ob.Fail("the reuse guard is %s, not `self.TypeOf(segment) == %s`: an existing intermediate of another kind is 'reused' (and the getter panics) instead of being replaced", exprStr(is.Cond), kindConstName(list))
		return
	}
	tn, tcall := s.selfCall(be.X)
	k, isK := c.obj(be.Y).(*types.Const)
	if tcall == nil {
		tn, tcall = s.selfCall(be.Y)
		k, isK = c.obj(be.X).(*types.Const)
	}
	if tcall == nil || tn != "TypeOf" || !isK || len(tcall.Args) != 1 || !s.segArgOK(tcall.Args[0], p) {
		ob.Fail("the reuse guard is %s, not `self.TypeOf(segment) == %s`", exprStr(is.Cond), kindConstName(list))
		return
	}
	if k.Name() != kindConstName(list) {
		ob.Fail("the guard tests %s but the next sigil needs a %s", k.Name(), K)
		return
	}
	// then: child = self.GetK(seg)
	good := len(is.Body.List) == 1
	if good {
		as, ok := is.Body.List[0].(*ast.AssignStmt)
		good = ok && len(as.Lhs) == 1 && len(as.Rhs) == 1 && c.obj(as.Lhs[0]) == child
		if good {
			gn, gcall := s.selfCall(as.Rhs[0])
			good = gcall != nil && gn == getterName(list) && len(gcall.Args) == 1 && s.segArgOK(gcall.Args[0], p)
		}
	}
	if !good {
		ob.Fail("the reuse arm is not `child = self.%s(segment)` (the existing container itself, not a copy)", getterName(list))
		return
	}
	eb, ok := is.Else.(*ast.BlockStmt)
	good = ok && len(eb.List) == 2
	if good {
		as, ok := eb.List[0].(*ast.AssignStmt)
		good = ok && len(as.Lhs) == 1 && len(as.Rhs) == 1 && c.obj(as.Lhs[0]) == child
		if good {
			nc, ok := unparen(as.Rhs[0]).(*ast.CallExpr)
			good = ok && len(nc.Args) == 0 && c.callee(nc) != nil && c.callee(nc).Name() == ctorName(list) && c.callee(nc).Pkg() == c.Types
		}
		if good {
			es, ok := eb.List[1].(*ast.ExprStmt)
			good = ok
			if good {
				sn, scall := s.selfCall(es.X)
				good = scall != nil && sn == store && len(scall.Args) == 2 && s.segArgOK(scall.Args[0], p) && c.obj(scall.Args[1]) == child
			}
		}
	}
	if !good {
		ob.Fail("the replace arm is not `child = %s(); self.%s(segment, child)`", ctorName(list), store)
		return
	}
	ob.Ok("guard TypeOf(seg) == %s; reuse self.%s(seg); else %s() stored with %s(seg, child) — one kind throughout, the kind the next sigil needs", kindConstName(list), getterName(list), ctorName(list), store)
}

func c11SetDescent(c *Ctx, s *tfSkel, is *ast.IfStmt, p types.Object, list bool, nm string) {
	fob := c.Ob("C11.R4", s.name+"/"+nm+"-frame", is.Pos())
	body := is.Body.List
	// child variable: declared `var child K`
	var child types.Object
	for _, st := range body {
		if ds, ok := st.(*ast.DeclStmt); ok {
			if gd, ok := ds.Decl.(*ast.GenDecl); ok && len(gd.Specs) == 1 {
				if vs, ok := gd.Specs[0].(*ast.ValueSpec); ok && len(vs.Names) == 1 && len(vs.Values) == 0 {
					if t := c.typeOf(vs.Type); t != nil && c.Inv().ContByIface(t) != nil && c.Inv().ContByIface(t).IsList == list {
						child = c.Info.Defs[vs.Names[0]]
					}
				}
			}
		}
	}
	if child == nil {
		fob.Undecided("the intermediate container variable (of the kind the next sigil needs) was not found")
		return
	}
	// tail: child.SetTF(tf[p:], value); return self
	if len(body) < 3 {
		fob.Fail("branch too short")
		return
	}
	es, ok := body[len(body)-2].(*ast.ExprStmt)
	good := ok
	if good {
		rc, ok := es.X.(*ast.CallExpr)
		good = ok && len(rc.Args) == 2 && s.isRest(rc.Args[0], p) && c.obj(rc.Args[1]) == s.valueParam()
		if good {
			rsel, ok := unparen(rc.Fun).(*ast.SelectorExpr)
			good = ok && c.obj(rsel.X) == child && c.callee(rc) != nil && c.callee(rc).Name() == "SetTF"
		}
	}
	if !good {
		fob.Fail("the branch does not continue with child.SetTF(tf[%s:], value) on the intermediate itself", nm)
		return
	}
	// the decision statement
	var decision *ast.IfStmt
	for _, st := range body {
		if x, ok := st.(*ast.IfStmt); ok && x.Else != nil {
			decision = x
		}
	}
	if decision == nil {
		fob.Fail("no reuse-or-replace decision found")
		return
	}
	allowed := map[*ast.CallExpr]bool{}
	if !s.ct.IsList {
		c11Triple(c, s, decision, p, list, nm, child, "Set")
	} else {
		// if index >= count { child = NewK(); pad; Add(child) } else { triple with Replace }
		c11Padding(c, s, decision, p, nm, func(then *ast.BlockStmt) (ast.Expr, bool) {
			if len(then.List) != 3 {
				return nil, false
			}
			as, ok := then.List[0].(*ast.AssignStmt)
			if !ok || len(as.Lhs) != 1 || len(as.Rhs) != 1 || c.obj(as.Lhs[0]) != child {
				return nil, false
			}
			nc, ok := unparen(as.Rhs[0]).(*ast.CallExpr)
			if !ok || len(nc.Args) != 0 || c.callee(nc) == nil || c.callee(nc).Name() != ctorName(list) {
				return nil, false
			}
			return ast.NewIdent(child.Name()), true
		}, child, 1)
		if eb, ok := decision.Else.(*ast.BlockStmt); ok && len(eb.List) == 1 {
			if inner, ok := eb.List[0].(*ast.IfStmt); ok {
				c11Triple(c, s, inner, p, list, nm, child, "Replace")
			} else {
				c.Ob("C11.R2", s.name+"/"+nm+"-reuse-or-replace", decision.Pos()).Fail("the index < count arm is not a reuse-or-replace decision")
			}
		} else {
			c.Ob("C11.R2", s.name+"/"+nm+"-reuse-or-replace", decision.Pos()).Fail("the index < count arm is not a single reuse-or-replace decision")
		}
	}
	// frame: mutator calls on self are only inside the decision statement
	a := c.E3()
	bad := ""
	for _, st := range body {
		if st == ast.Stmt(decision) {
			continue
		}
		for _, call := range s.selfCallsIn(st) {
			if f := c.callee(call); f != nil && mutatorNames[f.Name()] && !allowed[call] {
				bad = "self." + f.Name() + " outside the reuse-or-replace decision"
			}
		}
	}
	_ = a
	last, isRet := body[len(body)-1].(*ast.ReturnStmt)
	if bad == "" && (!isRet || len(last.Results) != 1 || !c.isEgo(s.fd, last.Results[0])) {
		bad = "branch does not end in `return ego`"
	}
	if bad != "" {
		fob.Fail("%s", bad)
	} else {
		fob.Ok("the receiver is mutated only by the store at the addressed segment (and padding); the rest is delegated to the intermediate itself")
	}
}

// c11Padding checks `if index >= count { [prefix]; for i := 0; i < index-count; i++ { self.Add(nil) }; self.Add(X) } …`
// thenPrefix validates the statements before the loop and returns the expression X expected in the final Add.
func c11Padding(c *Ctx, s *tfSkel, decision *ast.IfStmt, p types.Object, nm string, thenPrefix func(*ast.BlockStmt) (ast.Expr, bool), xObj types.Object, skip int) {
	ob := c.Ob("C11.R3", s.name+"/"+nm+"-padding", decision.Pos())
	be, ok := unparen(decision.Cond).(*ast.BinaryExpr)
	if !ok {
		ob.Fail("padding decision is not a comparison")
		return
	}
	idx, cnt, op := be.X, be.Y, be.Op
	if op == token.LEQ || op == token.LSS { // count <= index
		idx, cnt = cnt, idx
		op = map[token.Token]token.Token{token.LEQ: token.GEQ, token.LSS: token.GTR}[op]
	}
	isIdx := func(e ast.Expr) bool {
		if p == nil {
			return s.leafArgOK(e)
		}
		return s.segArgOK(e, p)
	}
	// count: single-assignment local defined before the decision as the receiver's count
	isCount := func(e ast.Expr) bool {
		o := s.c.obj(e)
		if o == nil {
			return false
		}
		d, ok := s.alias[o]
		return ok && c.isCountOfRecv(s.fd, d) && o.Pos() < decision.Pos()
	}
	if op != token.GEQ || !isIdx(idx) || !isCount(cnt) {
		ob.Fail("padding is not decided by `index >= count` with the count captured in a local before any Add (found %s)", exprStr(decision.Cond))
		return
	}
	then := decision.Body
	if _, ok := thenPrefix(then); !ok {
		ob.Fail("unexpected statements before the padding loop")
		return
	}
	rest := then.List[skip:]
	if len(rest) != 2 {
		ob.Fail("after the prefix, expected exactly: padding loop, one final Add")
		return
	}
	fs, ok := rest[0].(*ast.ForStmt)
	if !ok {
		ob.Fail("no padding loop")
		return
	}
	h, ok := c.forHeader(fs)
	if !ok {
		ob.Undecided("padding loop header outside the vocabulary")
		return
	}
	s0, okS := c.constInt(h.Start)
	// bound must be index - count over single-assignment locals only (not re-evaluated state)
	bb, okB := unparen(h.Bound).(*ast.BinaryExpr)
	if !okS || s0 != 0 || h.Step != 1 || h.Incl || !okB || bb.Op != token.SUB || !isIdx(bb.X) || !isCount(bb.Y) {
		ob.Fail("the padding loop does not run exactly index-count times for i = 0, 1, … (start %s, bound %s): the new element would not land at the requested index; the count must be the value captured before the loop, not re-read while the list grows", exprStr(h.Start), exprStr(h.Bound))
		return
	}
	good := len(fs.Body.List) == 1 && loopHasEarlyExit(fs) == ""
	if good {
		es, ok := fs.Body.List[0].(*ast.ExprStmt)
		good = ok
		if good {
			an, acall := s.selfCall(es.X)
			good = acall != nil && an == "Add" && len(acall.Args) == 1 && c.isNil(acall.Args[0])
		}
	}
	if !good {
		ob.Fail("padding loop body is not exactly self.Add(nil)")
		return
	}
	// final Add(X)
	var fin ast.Expr
	switch x := rest[1].(type) {
	case *ast.ExprStmt:
		fin = x.X
	case *ast.ReturnStmt:
		if len(x.Results) == 1 {
			fin = x.Results[0]
		}
	}
	an, acall := s.selfCall(fin)
	if acall == nil || an != "Add" || len(acall.Args) != 1 || c.obj(acall.Args[0]) != xObj || xObj == nil {
		ob.Fail("the padding is not followed by exactly one self.Add(<new element>)")
		return
	}
	ob.Ok("index >= count: Add(nil) exactly index-count times (count captured before), then one Add => the new element lands at `index`")
}

func c11SetLeaf(c *Ctx, s *tfSkel) {
	ob := c.Ob("C11.R4", s.name+"/leaf", s.leaf[0].Pos())
	val := s.valueParam()
	if !s.ct.IsList {
		r, ok := s.leaf[len(s.leaf)-1].(*ast.ReturnStmt)
		good := ok && len(s.leaf) == 1 && len(r.Results) == 1
		if good {
			sn, scall := s.selfCall(r.Results[0])
			good = scall != nil && sn == "Set" && len(scall.Args) == 2 && s.leafArgOK(scall.Args[0]) && c.obj(scall.Args[1]) == val
		}
		ob.Check(good, "leaf = return self.Set(remaining segment, value)", "object leaf is not `return self.Set(segment, value)`")
		return
	}
	// list leaf: parse; count := Count(); if index >= count { pad; return Add(value) }; return Replace(index, value)
	var decision *ast.IfStmt
	for _, st := range s.leaf {
		if x, ok := st.(*ast.IfStmt); ok {
			if be, ok := unparen(x.Cond).(*ast.BinaryExpr); ok && !c.isNil(be.Y) && !c.isNil(be.X) {
				decision = x
			}
		}
	}
	if decision == nil {
		ob.Fail("no padding decision in the list leaf")
		return
	}
	c11Padding(c, s, decision, nil, "leaf", func(then *ast.BlockStmt) (ast.Expr, bool) { return nil, true }, val, 0)
	r, ok := s.leaf[len(s.leaf)-1].(*ast.ReturnStmt)
	good := ok && len(r.Results) == 1
	if good {
		rn, rcall := s.selfCall(r.Results[0])
		good = rcall != nil && rn == "Replace" && len(rcall.Args) == 2 && s.leafArgOK(rcall.Args[0]) && c.obj(rcall.Args[1]) == val
	}
	// no other mutator calls outside the decision and the final return
	for _, st := range s.leaf[:len(s.leaf)-1] {
		if st == ast.Stmt(decision) {
			continue
		}
		for _, call := range s.selfCallsIn(st) {
			if f := c.callee(call); f != nil && mutatorNames[f.Name()] {
				good = false
			}
		}
	}
	ob.Check(good, "index < count: return self.Replace(index, value) — exactly the addressed slot", "list leaf does not end in `return self.Replace(index, value)` or mutates elsewhere")
}

func c11UnsetDescent(c *Ctx, s *tfSkel, is *ast.IfStmt, p types.Object, list bool, nm string) {
	ob := c.Ob("C11.R4", s.name+"/"+nm+"-frame", is.Pos())
	// no mutator call on self; exactly: child := self.GetK(seg); child.UnsetTF(tf[p:]); return ego
	for _, call := range s.selfCallsIn(is.Body) {
		if f := c.callee(call); f != nil && mutatorNames[f.Name()] {
			ob.Fail("UnsetTF's descent mutates the receiver with %s: more than the addressed slot changes", f.Name())
			return
		}
	}
	var rec *ast.CallExpr
	inspectNoLit(is.Body, func(n ast.Node) bool {
		if ce, ok := n.(*ast.CallExpr); ok {
			if f := c.callee(ce); f != nil && f.Name() == "UnsetTF" {
				rec = ce
			}
		}
		return true
	})
	if rec == nil || len(rec.Args) != 1 || !s.isRest(rec.Args[0], p) {
		ob.Fail("descent does not continue with child.UnsetTF(tf[%s:])", nm)
		return
	}
	rsel, ok := unparen(rec.Fun).(*ast.SelectorExpr)
	if !ok {
		ob.Fail("unexpected recursive call")
		return
	}
	gn, gcall := s.selfCall(s.resolve(rsel.X))
	if gcall == nil || gn != getterName(list) || len(gcall.Args) != 1 || !s.segArgOK(gcall.Args[0], p) {
		ob.Fail("the child is not self.%s(segment) (the stored container itself)", getterName(list))
		return
	}
	last, isRet := is.Body.List[len(is.Body.List)-1].(*ast.ReturnStmt)
	if !isRet || len(last.Results) != 1 || !c.isEgo(s.fd, last.Results[0]) {
		ob.Fail("descent does not end in `return ego`")
		return
	}
	ob.Ok("no mutation of the receiver; child = self.%s(seg) (panics on an unresolvable step before anything changed); child.UnsetTF(rest)", getterName(list))
}

func c11UnsetLeaf(c *Ctx, s *tfSkel) {
	ob := c.Ob("C11.R4", s.name+"/leaf", s.leaf[0].Pos())
	r, ok := s.leaf[len(s.leaf)-1].(*ast.ReturnStmt)
	want := "Unset"
	if s.ct.IsList {
		want = "Delete"
	}
	good := ok && len(r.Results) == 1
	if good {
		n, call := s.selfCall(r.Results[0])
		good = call != nil && n == want && len(call.Args) == 1 && s.leafArgOK(call.Args[0]) && !call.Ellipsis.IsValid()
	}
	for _, st := range s.leaf[:len(s.leaf)-1] {
		for _, call := range s.selfCallsIn(st) {
			if f := c.callee(call); f != nil && mutatorNames[f.Name()] {
				good = false
			}
		}
	}
	ob.Check(good, "leaf = return self."+want+"(addressed segment) and nothing else mutates", "leaf is not `return self."+want+"(segment)`")
}
