#!/bin/bash
# ./check.sh <Cxx> quick|thorough            decide property Cxx on /repo's current working tree
# ./check.sh <Cxx> replay <replay-file>      re-decide exactly the obligation recorded in a replay file
# Exit 0: held on everything analysed; 1: violation (VIOLATION line printed); 2: checker broken.
cd "$(dirname "$0")"
export GOFLAGS=-mod=mod GOPROXY=off GOSUMDB=off GOTOOLCHAIN=local GOWORK=off
prop="$1"; tier="${2:-quick}"; [ -n "$VERIF_TIER" ] && [ "$tier" != replay ] && [ -z "$2" ] && tier="$VERIF_TIER"
repo="${VERIF_REPO:-/repo}"
if [ ! -x bin/anycheck ] || [ -n "$(find checker -newer bin/anycheck -name '*.go' -print -quit 2>/dev/null)" ]; then
  mkdir -p bin; (cd checker && go build -o ../bin/anycheck .) || { echo "checker build failed" >&2; exit 2; }
fi
mkdir -p evidence/replay
if [ "$tier" = replay ]; then
  exec ./bin/anycheck -repo "$repo" -prop "$prop" -tier quick -known KNOWN_FINDINGS.txt -replaydir evidence/replay -replay "$3"
fi
./bin/anycheck -repo "$repo" -prop "$prop" -tier "$tier" -known KNOWN_FINDINGS.txt -replaydir evidence/replay -evidence "evidence/$prop.json"
rc=$?
if [ "$tier" = thorough ] && [ $rc -ne 2 ] && [ -f "evidence/$prop.json" ]; then
  # self-validation of the rules against the catalogue of property-breaking changes; informational, never changes the verdict
  python3 tools/selfval.py "$prop" "evidence/$prop.json" || true
fi
exit $rc
